#!/usr/bin/env python3
"""Writes /verif/MANIFEST.json from the table below (kept in one place so the manifest stays valid)."""
import json, subprocess
hooks = subprocess.run(['git','-C','/repo','log','--format=%H %s'],capture_output=True,text=True).stdout.strip().split('\n')
hook_commits=[l.split()[0] for l in hooks if ' verifhook' in l]
NA = {
 'C05': 'pure function of one string (Codec.Encode/Decode pairs); no stream, schedule, clock, history or second party can change its truth, and its quantifier is exhaustive enumeration of code points, which deterministic simulation does not do (DESIGN 4.5). System-level consequence covered under C06/C14.',
 'C08': 'table equality over all code points / septet pairs and a bit-layout law of pure functions; nothing a simulator decides (DESIGN 4.8).',
 'C17': 'pure 64-bit arithmetic and a Sprintf/Sscanf pair; no schedule, fault, clock or history involved (DESIGN 4.17).',
 'C19': 'ToValidatePeriod receives `now` as an argument, so the clock seam is already closed by the API and the function is pure (DESIGN 4.19).',
}
CHECKS = {
 'C04': dict(level='fault_enumeration', ref='4.4', technique='deterministic simulation: seeded link (cuts, coalescing, short reads, EOF, read errors, malformed prefixes) over the codec.ConnReader seam; exhaustive single-fault enumeration for short streams',
   text='Every single cut / EOF / read-error position of every generated short stream is enumerated for both codecs and both entry points, plus seeded multi-fault arrival patterns for long streams; each returned frame, error and Size() is compared with the sender\'s record. Sampling of frame lists, enumeration of fault positions.',
   note='SimConn implements the ConnReader doc comment (non-blocking Peek, views die at the next read call) in three buffer disciplines; frames up to 64 KiB.'),
}
CHECKS['C01']=dict(level='exploration', ref='4.1', technique='deterministic simulation: sender/receiver nodes over a seeded byte-preserving link and the real framer; conservation + field-wise round-trip oracle; misfit values must be refused',
   text='Seeded streams of 2..8 PDUs of all 57 types with boundary-biased well-formed values travel over a link that cuts and coalesces; the receiver (real framer + IDecode) must get exactly the PDUs sent, field by field, with the header length equal to the byte count; over-long fixed-width values must make IEncode fail. Sampling, not enumeration of the value space.',
   note='Value space is sampled by a generator driven by the specification tables; per-field known findings (SMGP raw/hex id, trailing-NUL authenticators) are listed in known_findings.json.')
CHECKS['C02']=dict(level='exploration', ref='4.2', technique='deterministic simulation against an independent spec-model peer (table-driven codec transcribed from the PDFs) over a seeded link; exhaustive destination-count x body-length sweep of the submit types',
   text='The library\'s octets are parsed by a model peer built only from the specification tables (and vice versa: conformant images are framed, dispatched and decoded by the library); every field, the length prefix, command id and sequence offsets must agree octet for octet. The destination-count 0..255 x body-length sweep is enumerated.',
   note='Trusted base: /verif/spec/layouts.spec (transcribed from the five PDFs in /repo/doc). Disagreements are triaged against the PDF text in /verif/spec/txt.')
CHECKS['C03']=dict(level='fault_enumeration', ref='4.3', technique='deterministic simulation with fault injection on the link: every truncation offset and every length/count-octet substitution of canonical images enumerated, seeded mixed faults, random frames and hostile text to every parser; panic / watchdog / allocation-meter / truncation-soundness oracles',
   text='Canonical images of all 57 types from the model peer are truncated at every offset (prefix lying or rewritten) and have every length/count octet substituted by {0,1,0x7f,0x80,0xff} (enumerated per corpus image), plus seeded combinations, garbage tails, random frames and hostile text; the receiver runs dispatcher, IDecode (right and wrong type), String, GenEmptyResponse, re-encode and all content parsers under recover, a 20 s no-progress watchdog, a 5 GiB address-space limit and an allocation meter.',
   note='Allocation bound is deliberately coarse (256 x input + 8 MiB) so that only allocations driven by an unchecked length field trip it; coverage-guided fuzzing named in the quantifier is a different technique and is not used.')
CHECKS['C20']=dict(level='exploration', ref='4.20', technique='deterministic simulation in the small: seeded operation histories x injected failure position / truncation position, checked operation by operation against a reference model; failure positions enumerated for short histories',
   text='Write histories (0..200 operations, arbitrary arguments) with one failing operation injected at a chosen position, the mirrored read history, and read histories against inputs cut at a chosen position are compared after every operation with a 30-line reference model (bytes, count, sticky first error). Every failure position of histories <= 12 operations and every truncation offset of inputs < 80 octets is enumerated.',
   note='No schedule or clock is involved; the simulated fault is the position of the failing operation inside the history.')
CHECKS['C16']=dict(level='exploration', ref='4.16', technique='deterministic simulation: emission order of optional parameters chosen by the seed through a tag-guarded hook, tails truncated / corrupted on the link, both parsers of each container compared with a model triplet parser',
   text='Sets of 0..32 parameters (value lengths on the 16-bit edges) are serialised in a seed-chosen order and parsed by both entry points of each container and through the five PDU types that carry them; damaged tails must never yield a parameter that is not completely present; oversize values, Add on an empty container and typed accessors on short values are exercised.',
   note='Go map iteration order is replaced by the seed through verifhook.ReorderTriplets; the tag / length value space is sampled.')
LS_NOTE='Texts are sampled (boundary-biased), not enumerated; the handset uses reference decoders written from the standards (GB18030 via x/text); packed GSM-7 parts are unpacked with the septet count a handset is told.'
CHECKS['C06']=dict(level='exploration', ref='4.6', technique='deterministic simulation: ESME -> SMSC -> air link (seeded reordering, duplication, interleaving) -> handset with reference decoders; exactly-once / conservation oracle over the delivery history',
   text='1..8 messages per run are split by the library, every part travels in its own submit PDU through the real framer and decoder and then over an air link that reorders, duplicates and interleaves parts; the handset reassembles by header and decodes with reference decoders. Every submitted text must be displayed exactly once and unaltered, under the reported coding (requested one iff it can represent the text, else UCS-2).', note=LS_NOTE)
CHECKS['C07']=dict(level='exploration', ref='4.7', technique='deterministic simulation: per-part invariants checked at the SMSC, reassembly at the handset through the library\'s header parser under seeded interleaving of 8-bit and 16-bit-reference messages',
   text='Every part produced is checked for size, header octets, counters and part count against a reference greedy splitter (more than 255 parts must be refused); the handset reassembles with ParseLongSmsContent while a second vendor sends 16-bit-reference messages whose references collide when ORed; exact tuples and near-miss headers are sampled on the parser.', note=LS_NOTE)
CHECKS['C14']=dict(level='exploration', ref='4.14', technique='deterministic simulation: per-part decode at the handset (reference decoders) after seeded reordering on the air link; multi-unit characters generated across every part boundary',
   text='Texts with GSM-7 escape pairs, surrogate pairs and 2-/4-octet GB18030 characters placed at offsets -2..+1 around every part boundary are split, transported and reassembled; each part must decode on its own and the concatenation of the separately decoded parts must equal the text.', note=LS_NOTE)
CHECKS['C09']=dict(level='exploration', ref='4.9', technique='deterministic simulation: seeded cooperative scheduler (testing/synctest bubble) interleaving the errgroup workers the library starts itself, Go map order replaced by the seed through a hook, same request repeated K times per run',
   text='Each request (content x candidate list x origin coding x protocol) is built 2..8 times in one run under seed-chosen candidate-slice order and worker interleaving, with a second task hammering the shared pools; all results must be identical, the winner must need the fewest parts among the candidates the reference repertoire check accepts (ties by priority), UCS-2 fallback otherwise, and the parts must decode to the content.',
   note='Between two yield sites a task runs atomically; candidates of the wrong protocol type are out of contract and not generated; tie-break priority is read through the public Priority() accessor.')
CHECKS['C10']=dict(level='exploration', ref='4.10', technique='deterministic simulation with a simulated clock (testing/synctest bubble): pipelined requests, seed-chosen processing delays so that responses overtake each other, exactly-once pairing oracle over the history; command-id space of every dispatcher enumerated',
   text='A client pipelines 1..64 requests of every request type (edge sequence numbers, all three SGIP words, three bind flavours, constructor-built logins that read the simulated clock); the server dispatches, generates and encodes the response after a seed-chosen delay while the clock advances; the client dispatches and pairs by sequence id. Response type, sequence words and command id of the encoded header, GetCommand vs header, SetSequenceID visibility and dispatcher consistency are checked; command ids 0..0x11f and 0x80000000..0x8000011f are enumerated per dispatcher.',
   note='The request/response table comes from the specification tables; the 2^32 id space is sampled outside the enumerated ranges.')
CHECKS['C11']=dict(level='exploration', ref='4.11', technique='deterministic simulation of a two-hop relay (peer -> relay gateway -> receiver) over seeded links; canonical, conformant and accepted-but-non-canonical images; emission order of optional parameters chosen by the seed',
   text='Images of all 57 types (library-encoded canonical ones, model-peer conformant ones, and non-canonical variants with junk after NULs, duplicate tags, extreme values, maximum-length optional values, trailing octets, substituted count octets) are decoded and re-encoded by a relay node and decoded again by a receiver: whatever was accepted must re-encode without error or panic, the second decode must equal the first, and canonical images must be reproduced bit-for-bit (optional parameters as a set).',
   note='The one-time CMPP 2.0 0/0 -> 1/1 part-counter default is allowed; SMGP submit-response / deliver ids (raw on encode, hex on decode) are a listed known finding.')
CHECKS['C15']=dict(level='exploration', ref='4.15', technique='deterministic simulation with a simulated clock (testing/synctest bubble) and zone: constructor-built logins cross the link, both peers verify with an independent MD5; credential search for digests containing 0x00',
   text='The clock is moved to a seed-chosen instant and zone, the real constructors build the login (or it is built from fields for timestamps no clock produces), it is encoded, framed and decoded at the server, which recomputes the digest with crypto/md5, answers, and the client verifies the server authenticator independently; correct credentials must verify in both directions, a wrong secret must not, and the wire octets must be the digest the protocol defines. Secrets are searched so that digests contain or end in 0x00.',
   note='Digests whose last octet is 0x00 are a listed known finding (trailing NULs are stripped on decode, pinned by the suite).')
CHECKS['C18']=dict(level='exploration', ref='4.18', technique='deterministic simulation: SMSC stub emits submit responses and delivery receipts in a seed-chosen network order (receipts may overtake responses); ESME extracts with the real extractors and correlates by id; exactly-once correlation oracle',
   text='Receipt texts are built from the eight standard keys in a seed-chosen order, subset and spelling (SMGP: both spellings, ten arbitrary id octets), values also longer than the field width; they travel as deliver PDUs interleaved with the submit responses; every message must be matched with exactly one receipt and every extracted field must equal the characters between its colon and the next space (SMGP: cut to the field width, id as hex). CMPP status-report bodies round-trip through their encoder and decoder inside deliver PDUs.',
   note='8! orders x 2^8 subsets x values are sampled, not enumerated; values contain no colon so that they cannot spell a key token.')
CHECKS['C12']=dict(level='exploration', ref='4.12', technique='deterministic simulation of call histories with buffer-reuse faults: zero-copy Peek views scribbled after decode and destroyed by the next fill, outputs scribbled, pooled buffers poisoned on release, pool hand-off between seeded tasks; snapshot-vs-later-state and sequential-reference oracles',
   text='1..4 tasks run histories of 1..1000 library calls (decode straight from the frame extractor\'s zero-copy view, encode, String, split, header parse, pooled UCS-2 conversion, receipt extraction) on their own values; every input view is overwritten right after the decode, a second output of every encode is overwritten, every pooled buffer is filled with 0xA5 when released, and the scheduler switches tasks at the pool touch points. Every earlier result must still equal its deep snapshot after later steps and must equal the result of a sequential fault-free pass.',
   note='Strings are cloned in snapshots so that a string sharing memory with a reused buffer is caught; String() is exercised on PDUs without optional parameters (their rendering iterates a Go map).')
CHECKS['C13']=dict(level='exploration', ref='4.13', technique='deterministic simulation: seeded cooperative scheduler over 2..64 tasks (incl. adopted errgroup workers) with every result compared to a sequential reference pass; plus a free-running race-detector leg (GOMAXPROCS 1/4/16, seeded Gosched at the yield sites)',
   text='Leg A: 2..64 tasks each run a seeded sequence of library calls on their own values; the scheduler chooses the running task at every pool touch point and every result must equal the sequential pass (no panic, all tasks finish). Leg B: the same seeded workloads run on real threads under the race detector at GOMAXPROCS 1, 4 and 16; a race report or a result differing from the sequential pass is a violation. Leg B observes real executions whose interleaving the simulator does not decide; it is the decision procedure for the data-race clause.',
   note='Leg A replays exactly; leg B failures replay with high probability only (workload seed + race log). Between two yield sites a task runs atomically in leg A.')
PENDING = {}
def load_extra():
    try:
        import manifest_table
        CHECKS.update(manifest_table.CHECKS)
    except ImportError:
        pass
load_extra()
allp=[json.loads(l)['id'] for l in open('/verif/properties.jsonl')]
checks=[]
for p in allp:
    if p in CHECKS:
        c=CHECKS[p]
        checks.append(dict(property_id=p, quick_cmd=f'./check {p} quick', thorough_cmd=f'./check {p} thorough',
            evidence_file=f'/verif/evidence/{p}.json', replay_cmd_template='./check replay {path}', engine='simworld',
            level_claimed=dict(category=c['level'], text=c['text'], design_ref='DESIGN.md section '+c['ref']),
            level_note=c['note'], technique=c['technique']))
na=[dict(property_id=p, reason=NA[p]) for p in allp if p in NA]
for p in allp:
    if p not in CHECKS and p not in NA:
        na.append(dict(property_id=p, reason='not claimed yet: the scenario that decides it (DESIGN.md section 4) is not built at this commit'))
m=dict(version=1, setup_cmd='./check setup',
  hooks=dict(guard='verif', enable='go test -c -tags verif (the simulator module /verif/sim replaces the library module by /repo)',
     baseline_off_cmd='cd /repo && go test -mod=mod -vet=off -count=1 ./...', source_commits=hook_commits, add_only=True),
  engines=[dict(name='simworld', path='/verif/sim', serves_properties=[p for p in allp if p in CHECKS], kind_free_text='deterministic simulation with fault injection: seeded choice tape, cooperative scheduler in a testing/synctest bubble, simulated link/ConnReader, spec-model peer, tape minimiser and exact replay')],
  checks=checks, not_applicable=na,
  notes='One integer (VERIF_SEED) decides every run; ./check <id> <tier> rebuilds the simulator from /repo\'s working tree with -tags verif. Known / fixed findings: /verif/known_findings.json. Determinism self-test: ./check selftest.')
json.dump(m, open('/verif/MANIFEST.json','w'), indent=1)
print('checks:',[c['property_id'] for c in checks],'na:',[n['property_id'] for n in na])
