#!/usr/bin/env python3
"""Stdlib-only text extractor for the five protocol PDFs in /repo/doc.

Reading aid for transcribing the PDU layout tables into the independent
reference codec (sim/spec).  Handles Flate streams, the PDF standard security
handler V2/R3 with the empty user password (the SMGP document is encrypted),
literal strings and 2-byte glyph strings whose Latin glyph ids are ASCII-0x1D
(observed in the SGIP and SMGP documents).  CJK text is dropped ('#').

usage: pdftext.py file.pdf > out.txt
"""
import hashlib, re, struct, sys, zlib

PAD = bytes([0x28,0xBF,0x4E,0x5E,0x4E,0x75,0x8A,0x41,0x64,0x00,0x4E,0x56,0xFF,0xFA,0x01,0x08,
             0x2E,0x2E,0x00,0xB6,0xD0,0x68,0x3E,0x80,0x2F,0x0C,0xA9,0xFE,0x64,0x53,0x69,0x7A])

def pdfstr(b):
    out = bytearray(); i = 0
    esc = {ord('n'):10, ord('r'):13, ord('t'):9, ord('b'):8, ord('f'):12}
    while i < len(b):
        c = b[i]
        if c == 0x5c:
            i += 1; c = b[i]
            if c in esc: out.append(esc[c])
            elif 0x30 <= c <= 0x37:
                j = i; v = 0
                while j < i+3 and j < len(b) and 0x30 <= b[j] <= 0x37:
                    v = v*8 + b[j]-0x30; j += 1
                out.append(v & 255); i = j-1
            else: out.append(c)
        else: out.append(c)
        i += 1
    return bytes(out)

def grab_literal(d, start):
    k = start; depth = 1
    while True:
        if d[k] == 0x5c: k += 2; continue
        if d[k] == 0x28: depth += 1
        if d[k] == 0x29:
            depth -= 1
            if depth == 0: break
        k += 1
    return pdfstr(d[start:k])

def rc4(k, data):
    S = list(range(256)); j = 0
    for i in range(256):
        j = (j + S[i] + k[i % len(k)]) & 255; S[i], S[j] = S[j], S[i]
    i = j = 0; out = bytearray()
    for c in data:
        i = (i+1) & 255; j = (j+S[i]) & 255; S[i], S[j] = S[j], S[i]
        out.append(c ^ S[(S[i]+S[j]) & 255])
    return bytes(out)

def file_key(d):
    i = d.find(b'/Filter/Standard')
    if i < 0: i = d.find(b'/Filter /Standard')
    if i < 0: return None
    seg_start = d.rfind(b'obj', 0, i)
    seg = d[seg_start:d.find(b'endobj', i)]
    O = grab_literal(seg, seg.find(b'/O(')+3)
    P = int(re.search(rb'/P (-?\d+)', seg).group(1))
    ID0 = bytes.fromhex(re.search(rb'/ID\s*\[\s*<([0-9A-Fa-f]+)>', d).group(1).decode())
    h = hashlib.md5(PAD + O + struct.pack('<i', P) + ID0).digest()
    for _ in range(50): h = hashlib.md5(h[:16]).digest()
    return h[:16]

def streams(d):
    key = file_key(d)
    if key is None:
        # unencrypted: object boundaries are irrelevant, scan raw stream bodies
        for m in re.finditer(rb'stream\r?\n', d):
            s = m.end(); e = d.find(b'endstream', s)
            raw = d[s:e]
            try: t = zlib.decompress(raw)
            except Exception:
                try: t = zlib.decompressobj().decompress(raw)
                except Exception: continue
            if b'BT' in t and (b'Tj' in t or b'TJ' in t):
                yield t
        return
    for m in re.finditer(rb'(\d+) (\d+) obj', d):
        num, gen = int(m.group(1)), int(m.group(2))
        e = d.find(b'endobj', m.end())
        body = d[m.end():e]
        sm = re.search(rb'stream\r?\n', body)
        if not sm: continue
        raw = body[sm.end():]
        lm = re.search(rb'/Length (\d+)(?! \d+ R)', body[:sm.start()])
        if lm: raw = raw[:int(lm.group(1))]
        else:
            k = raw.rfind(b'endstream')
            if k >= 0: raw = raw[:k]
        ok = hashlib.md5(key + struct.pack('<I', num)[:3] + struct.pack('<H', gen)).digest()[:16]
        raw = rc4(ok, raw)
        try: t = zlib.decompress(raw)
        except Exception:
            try: t = zlib.decompressobj().decompress(raw)
            except Exception: continue
        if b'BT' in t and (b'Tj' in t or b'TJ' in t):
            yield t

def conv_hex(h):
    out = []
    for i in range(0, len(h)-3, 4):
        c = int(h[i:i+4], 16); a = c + 0x1D
        out.append(chr(a) if 0x20 <= a < 0x7f and c < 0x80 else '#')
    return ''.join(out)

def unesc(b): return re.sub(rb'\\([()\\])', rb'\1', b)

def text_of(t):
    out = []
    num = rb'-?\d*\.?\d+'
    pat = (rb'\[((?:\((?:\\.|[^\\)])*\)|<[0-9A-Fa-f]*>|[^\]()<>])*)\]\s*TJ'
           rb'|\(((?:\\.|[^\\)])*)\)\s*Tj|<([0-9A-Fa-f]+)>\s*Tj'
           rb'|(' + num + rb')\s+(' + num + rb')\s+T[dD]\b|(T\*|Tm|ET)\b')
    for m in re.finditer(pat, t, re.S):
        if m.group(6): out.append('\n'); continue
        if m.group(4) is not None:
            if abs(float(m.group(5))) > 1e-6: out.append('\n')
            elif abs(float(m.group(4))) > 400: out.append(' ')
            continue
        if m.group(3) is not None: out.append(conv_hex(m.group(3).decode())); continue
        seg = m.group(1) if m.group(1) is not None else b'(' + m.group(2) + b')'
        for lm in re.finditer(rb'\(((?:\\.|[^\\)])*)\)|<([0-9A-Fa-f]+)>', seg):
            if lm.group(1) is not None: out.append(unesc(lm.group(1)).decode('latin1'))
            else: out.append(conv_hex(lm.group(2).decode()))
    txt = re.sub(r'#+', '#', ''.join(out))
    lines = [re.sub(r'\s+', ' ', l).strip() for l in txt.split('\n')]
    return '\n'.join(l for l in lines if l and set(l) - set('# '))

if __name__ == '__main__':
    d = open(sys.argv[1], 'rb').read()
    for i, t in enumerate(streams(d)):
        print('=== STREAM', i+1); print(text_of(t))
