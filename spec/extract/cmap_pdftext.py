#!/usr/bin/env python3
"""Text extractor for PDFs whose fonts use subset encodings + ToUnicode CMaps
(the CMPP 3.0 document).  Stdlib only; unencrypted files only.
usage: cmap_pdftext.py file.pdf > out.txt
"""
import re, sys, zlib

d = open(sys.argv[1], 'rb').read()
objs = {}
for m in re.finditer(rb'(\d+) (\d+) obj\b', d):
    e = d.find(b'endobj', m.end())
    objs[int(m.group(1))] = d[m.end():e]

def stream_of(body):
    sm = re.search(rb'stream\r?\n', body)
    if not sm: return None
    raw = body[sm.end():]
    k = raw.rfind(b'endstream')
    if k >= 0: raw = raw[:k]
    try: return zlib.decompress(raw)
    except Exception:
        try: return zlib.decompressobj().decompress(raw)
        except Exception: return raw

def deref(val):
    m = re.match(rb'\s*(\d+) \d+ R', val)
    return objs.get(int(m.group(1)), b'') if m else val

def dict_after(body, key):
    i = body.find(key)
    if i < 0: return None
    rest = body[i+len(key):]
    m = re.match(rb'\s*(\d+) \d+ R', rest)
    if m: return objs.get(int(m.group(1)), b'')
    j = rest.find(b'<<')
    if j < 0: return None
    depth = 0; k = j
    while k < len(rest):
        if rest[k:k+2] == b'<<': depth += 1; k += 2; continue
        if rest[k:k+2] == b'>>':
            depth -= 1; k += 2
            if depth == 0: break
            continue
        k += 1
    return rest[j:k]

def parse_cmap(t):
    mp = {}
    for blk in re.findall(rb'beginbfchar(.*?)endbfchar', t, re.S):
        for a, b in re.findall(rb'<([0-9A-Fa-f]+)>\s*<([0-9A-Fa-f]+)>', blk):
            mp[int(a, 16)] = bytes.fromhex(b.decode()).decode('utf-16-be', 'replace')
    for blk in re.findall(rb'beginbfrange(.*?)endbfrange', t, re.S):
        for a, b, c in re.findall(rb'<([0-9A-Fa-f]+)>\s*<([0-9A-Fa-f]+)>\s*<([0-9A-Fa-f]+)>', blk):
            lo, hi, base = int(a, 16), int(b, 16), int(c, 16)
            for x in range(lo, hi+1): mp[x] = chr(base + x - lo)
    nbytes = 2 if re.search(rb'<[0-9A-Fa-f]{4}>\s*<[0-9A-Fa-f]{4}>\s*endcodespacerange', t) else 1
    return mp, nbytes

fontmaps = {}
def fonts_of(page):
    res = dict_after(page, b'/Resources') or b''
    fd = dict_after(res, b'/Font') or b''
    out = {}
    for name, ref in re.findall(rb'/(\w+)\s+(\d+) \d+ R', fd):
        ref = int(ref)
        if ref not in fontmaps:
            f = objs.get(ref, b'')
            m = re.search(rb'/ToUnicode\s+(\d+) \d+ R', f)
            if m:
                s = stream_of(objs.get(int(m.group(1)), b'')) or b''
                fontmaps[ref] = parse_cmap(s)
            else:
                fontmaps[ref] = (None, 1)
        out[name] = fontmaps[ref]
    return out

def unesc(b): return re.sub(rb'\\([()\\])', rb'\1', b)

def show(seg, fm):
    mp, nb = fm
    out = []
    for lm in re.finditer(rb'\(((?:\\.|[^\\)])*)\)|<([0-9A-Fa-f]+)>', seg):
        if lm.group(1) is not None:
            raw = unesc(lm.group(1))
        else:
            h = lm.group(2).decode()
            if len(h) % 2: h += '0'
            raw = bytes.fromhex(h)
        if mp is None:
            out.append(raw.decode('latin1')); continue
        for i in range(0, len(raw) - nb + 1, nb):
            c = int.from_bytes(raw[i:i+nb], 'big')
            out.append(mp.get(c, '?'))
    return ''.join(out)

def text_of(t, fonts):
    num = rb'-?\d*\.?\d+'
    pat = (rb'/(\w+)\s+' + num + rb'\s+Tf'
           rb'|(\[(?:\((?:\\.|[^\\)])*\)|<[0-9A-Fa-f]*>|[^\]()<>])*\])\s*TJ'
           rb'|(\((?:\\.|[^\\)])*\)|<[0-9A-Fa-f]+>)\s*Tj'
           rb'|(' + num + rb')\s+(' + num + rb')\s+T[dD]\b|(T\*|Tm|ET)\b')
    cur = (None, 1); out = []
    for m in re.finditer(pat, t, re.S):
        if m.group(1): cur = fonts.get(m.group(1), (None, 1)); continue
        if m.group(6): out.append('\n'); continue
        if m.group(4) is not None:
            if abs(float(m.group(5))) > 1e-6: out.append('\n')
            continue
        out.append(show(m.group(2) or m.group(3), cur))
    lines = [re.sub(r'\s+', ' ', l).strip() for l in ''.join(out).split('\n')]
    return '\n'.join(l for l in lines if l)

pages = [(n, b) for n, b in sorted(objs.items()) if re.search(rb'/Type\s*/Page\b', b)]
for idx, (n, body) in enumerate(pages):
    fonts = fonts_of(body)
    refs = re.search(rb'/Contents\s*(\[[^\]]*\]|\d+ \d+ R)', body)
    if not refs: continue
    print('=== PAGE', idx+1)
    for r in re.findall(rb'(\d+) \d+ R', refs.group(1)):
        s = stream_of(objs.get(int(r), b''))
        if s: print(text_of(s, fonts))
