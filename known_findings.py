#!/usr/bin/env python3
"""Source of /verif/known_findings.json (run it after editing). The JSON file is what the checks read; it is never written at run time."""
import json
K=[]  # known
F=[]  # fixed
def known(prop,key,what): K.append(dict(status="known",property=prop,key=key,what=what))
def fixed(prop,key,commit,what): F.append(dict(status="fixed",property=prop,key=key,commit=commit,what=what))

HEXID="SMGP message id is written as 10 raw octets by IEncode but presented as 20 hex digits by IDecode; the asymmetry is pinned by the unedited suite (smgp30/pdu_deliver_test.go:34-55, pdu_submit_test.go:101-114), so no fix: commit can remove it"
for t in ("Deliver","SubmitResp"):
    known("C01",f"C01|roundtrip|smgp30.{t}|field=MsgID/raw-in-hex-out",HEXID)
for t in ("Deliver","SubmitResp"):
    known("C11",f"C11|reencode|smgp30.{t}|error","a decoded smgp30."+t+" cannot be encoded again: "+HEXID)
TN="a 16-octet authenticator whose LAST octet(s) are 0x00 comes back without them (1/256 of MD5 digests): the suite requires short textual authenticators to come back unpadded (smgp30/pdu_login_test.go:73-91), so trailing NULs must be stripped; interior NULs were repaired by 45f5e6c"
for site,f in (("cmpp20.PduConnect","AuthenticatorSource"),("cmpp20.PduConnectResp","AuthenticatorISMG"),("cmpp30.Connect","AuthenticatorSource"),("cmpp30.ConnectResp","AuthenticatorISMG"),("smgp30.Login","AuthenticatorClient"),("smgp30.LoginResp","AuthenticatorServer")):
    known("C01",f"C01|roundtrip|{site}|field={f}/trailing-nul",TN)
    known("C02",f"C02|decode|{site}|field={f}/trailing-nul",TN)
    known("C15",f"C15|verify|{site}|trailing-nul","a correct peer is refused when the MD5 digest ends in 0x00: "+TN)
known("C02","C02|layout|smgp30.ActiveTestResp|trailing","smgp30.ActiveTestResp.IEncode emits a 13th 'Reserved' octet although SMGP 3.0.3 section 5.2.2.5.2 defines Active_Test_Resp as header only; the 13-octet image is pinned by smgp30/pdu_activetest_test.go (TestActiveTestResp_IEncode), the decode side was repaired")

fixed("C04","C04|bad-prefix-accepted|{CMPP,SMPP}Codec.Decode|prefix={0,1,2,3}; C04|panic|{CMPP,SMPP}Codec.DecodeBlocked|prefix={0,1,2,3}","dd83ab5","frame extractors accepted a length prefix of 0..3: Decode returned an empty/short frame (forever for 0), DecodeBlocked panicked slicing left[4:n]")
fixed("C03","C03|hang|smgp30.Deliver.IDecode|no-progress-20s (also seen as C01|hang|…)","97be15c","smgp.ReadOptions never advanced: any SMGP deliver with an optional parameter spun forever")
fixed("C03","C03|alloc|sgip12.Deliver.IDecode|… (MessageLength=0xFFFFFFF0)","ee2ccc1","packet.Reader allocated n octets before checking they exist (ReadCStringN, ReadCStringNWithoutTrim, ReadNBytes)")
fixed("C03","C03|panic|datacoding/gsm7encoding.Unpack|index-range","9d1f624","gsm7encoding.Unpack(empty) indexed septets[-1]")
fixed("C16","C16|panic|smpp.TLV.Bytes|slice-bounds; C16|panic|smgp.Option.Bytes|slice-bounds; C11|panic|…","792bdaf","TLV.Bytes / Option.Bytes sized the buffer with 16-bit length+4 (values of 65532..65535 octets)")
fixed("C16","C16|panic|smgp.Options.TP_udhi|index-range","1559fed","TP_udhi indexed value[0] of an empty value")
fixed("C12","C12|aliasing|smgp30.Submit|Options","d8ba49f","smgp.ParseOptions kept option values as sub-slices of the caller's buffer")
fixed("C20","C20|written-count|Writer.WriteUint{8,16,32,64}|after-error","3d002ef","WriteUintN kept counting after a recorded error")
fixed("C01","C01|roundtrip|cmpp20.PduQueryResp|field={MoScs,MoWT,MoFL}; C02|layout|cmpp20.PduQueryResp|field=MO_*","a61fcb6","cmpp20.PduQueryResp wrote/read the MT counters twice, MO never")
fixed("C02","C01|length-prefix|cmpp20.PduSubmit|encode; C02|length-prefix|cmpp20.PduSubmit|encode","b5dbf47","cmpp20.PduSubmit length prefix computed with uint8 multiplication (>= 13 destinations)")
fixed("C15","C01|roundtrip|<connect/login types>|field=Authenticator*/interior-nul; C15|verify|…|interior-nul","45f5e6c","16-octet authenticators read as C-strings were cut at the first 0x00")
fixed("C18","C18|panic|smgp30.findSubValue|slice-bounds; C18|extract|smgp30|backup-key","0b25886","SMGP receipt parser matched the fallback key without colon and used the primary key's length")
fixed("C07","C07|parse|ParseLongSmsContent|ref16","ed523c6","16-bit concatenation reference parsed as b3|b4")
fixed("C06","C06|content-lost|smpp/GSM7_PACKED|…","bb687a5","packed GSM-7 splitter fixed the part count before escape shifting and dropped the tail")
fixed("C07","C07|counter-wrap|…|parts>255","c7e5688","more than 255 parts wrapped total/seq modulo 256 instead of being refused")
fixed("C10","C10|command|smpp34.Bind|flavour; C10|resp-type|smpp34.Bind|flavour","8a3f677","smpp34.Bind/BindResp always reported/answered as transceiver")
fixed("C10","C10|dispatch|smpp34.UnBindResp|unsupported; C10|dispatch|sgip12.UnbindResp|unsupported; C10|dispatch|cmpp20.PduQuery(Resp)|unsupported","a35895d","dispatchers did not know PDUs their packages encode")
fixed("C10","C10|resp-seq|sgip12.*|word=0/1","5a1a4cd","SGIP responses carried time.Now() / the sequence id instead of the request's three sequence words")
fixed("C16","C16|add-lost|smgp.Options|nil-map","d1ea293","Options.Add on a nil map was lost (value receiver)")
fixed("C11","C11|reencode|sgip12.{Submit,Deliver}|error (found by the 386 platform leg; does not occur where int has 64 bits)","1b75e0a","on platforms with a 32-bit int the sgip12 submit/deliver decoders converted a Message_Length above MaxInt32 to a negative int, which the reader takes for 'nothing to read': a PDU announcing more than 2 GiB of content was accepted with an empty body and could not be encoded again")
fixed("C06","C06|reported-coding|{cmpp20,cmpp30,smpp}/UCS2|req=invalid-number","f2cc1a6","split entry points reported the caller's unsupported data-coding number although the parts are UCS-2")
fixed("C14","C14|part-undecodable|*/UCS2|surrogate-pair; */GB18030|multi-octet-char; smpp/GSM7-unpacked|escape-pair","ab5c7c5","generic splitter cut surrogate pairs, GB18030 characters and unpacked GSM-7 escape pairs in two at 134/153")
fixed("C02","C02|decode|smgp30.Submit|field=DestTermID; C02|decode|sgip12.Submit|field=UserNumber (decode into a reused PDU value)","REUSED","smgp30.Submit / sgip12.Submit IDecode appended destinations to those of the previous PDU when the value was reused")
fixed("C02","C02|decode|smgp30.ActiveTestResp|refused","HEAD~0","smgp30.ActiveTestResp.IDecode refused the 12-octet Active_Test_Resp of the specification")

import subprocess
head=subprocess.run(['git','-C','/repo','log','--format=%h %s'],capture_output=True,text=True).stdout.split('\n')
for f in F:
    if f['commit'].startswith('HEAD'):
        for l in head:
            if 'ActiveTestResp.IDecode refused' in l: f['commit']=l.split()[0]
    if f['commit']=='REUSED':
        for l in head:
            if 'reused Submit value' in l: f['commit']=l.split()[0]
for k in K:
    k['line']=f"KNOWN-FINDING: property={k['property']} {k['key']} — {k['what']}"
for f in F:
    f['line']=f"fixed: property={f['property']} {f['commit']} {f['what']} (finding keys: {f['key']})"
json.dump(dict(findings=K+F),open('/verif/known_findings.json','w'),indent=1,ensure_ascii=False)
print(len(K),'known',len(F),'fixed')
