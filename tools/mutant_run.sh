#!/bin/bash
# tools/mutant_run.sh <patch> <prop> [<prop>…] : apply a property-breaking patch to a scratch worktree of /repo's
# HEAD (under /tmp, removed afterwards), run the quick checks named against that scratch tree
# (VERIF_REPO / VERIF_BUILD redirect the framework; /repo itself and /verif/evidence are not touched, so several
# evaluations can run side by side). Prints one line per property. MUTANT_IN_REPO=1 applies the patch to /repo's
# working tree instead (and restores it), exactly as the registered checks would see it.
set -u
patch=$(readlink -f "$1"); shift
if [ "${MUTANT_IN_REPO:-}" = 1 ]; then
  cd /repo || exit 2
  if ! git diff --quiet; then echo "repo working tree not clean"; exit 2; fi
  if ! git apply "$patch"; then echo "patch does not apply: $patch"; exit 2; fi
  trap 'git -C /repo checkout -- . ; git -C /repo clean -fdq' EXIT
  tree=/repo; build=""
else
  tree=$(mktemp -d /tmp/mut-XXXXXX); rmdir "$tree"
  git -C /repo worktree add -q --detach "$tree" HEAD || exit 2
  build="$tree.build"
  trap 'git -C /repo worktree remove --force "$tree" 2>/dev/null; rm -rf "$tree" "$build"' EXIT
  if ! git -C "$tree" apply "$patch" 2>/dev/null && ! git -C "$tree" apply --3way "$patch" >/dev/null 2>&1; then echo "patch does not apply: $patch"; exit 2; fi
fi
if ! (cd "$tree" && GOFLAGS=-mod=mod GOPROXY=off go build ./... ) ; then echo "MUTANT-DOES-NOT-BUILD $patch"; exit 2; fi
for p in "$@"; do
  if [ -n "$build" ]; then
    out=$(cd ${VERIF_EVAL_ROOT:-/verif} && VERIF_REPO="$tree" VERIF_BUILD="$build" VERIF_WORKERS=${VERIF_WORKERS:-16} VERIF_SCALE_PCT=${VERIF_SCALE_PCT:-100} ./check $p quick 2>&1); code=$?
  else
    out=$(cd ${VERIF_EVAL_ROOT:-/verif} && VERIF_SCALE_PCT=${VERIF_SCALE_PCT:-100} ./check $p quick 2>&1); code=$?
  fi
  nv=$(echo "$out" | grep -c '^VIOLATION')
  keys=$(echo "$out" | grep '^finding' | sed 's/^finding \([^:]*\):.*/\1/' | head -4 | tr '\n' ' ')
  echo "$(basename $patch) $p exit=$code violations=$nv $keys"
  if [ $code -eq 2 ]; then echo "$out" | tail -5; fi
done
