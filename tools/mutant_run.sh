#!/bin/bash
# tools/mutant_run.sh <patch> <prop> [<prop>…] : apply a property-breaking patch to /repo's working tree,
# run the quick checks named, restore the tree. Prints one line per property.
set -u
patch=$(readlink -f "$1"); shift
cd /repo || exit 2
if ! git diff --quiet; then echo "repo working tree not clean"; exit 2; fi
if ! git apply "$patch"; then echo "patch does not apply: $patch"; exit 2; fi
trap 'git -C /repo checkout -- . ; git -C /repo clean -fdq' EXIT
if ! (cd /repo && go build ./... ) ; then echo "MUTANT-DOES-NOT-BUILD $patch"; exit 2; fi
for p in "$@"; do
  out=$(cd /verif && VERIF_SCALE_PCT=${VERIF_SCALE_PCT:-100} ./check $p quick 2>&1); code=$?
  nv=$(echo "$out" | grep -c '^VIOLATION')
  keys=$(echo "$out" | grep '^finding' | sed 's/^finding \([^:]*\):.*/\1/' | head -4 | tr '\n' ' ')
  echo "$(basename $patch) $p exit=$code violations=$nv $keys"
  if [ $code -eq 2 ]; then echo "$out" | tail -5; fi
done
