#!/bin/bash
# tools/benign_eval.sh [<dir>…] : behaviour-preserving changes kept under /verif/benign/<id>/patch.diff are applied to a
# scratch tree one at a time and ALL quick checks are run; every one must exit 0 (no VIOLATION): a false-alarm test.
set -u
# the evaluation works on a snapshot of /verif taken now, so that editing the harness meanwhile does not disturb it
export VERIF_EVAL_ROOT=$(mktemp -d /tmp/verif-eval-XXXXXX)
rsync -a --exclude .build --exclude replays --exclude .git /verif/ "$VERIF_EVAL_ROOT"/
trap 'rm -rf "$VERIF_EVAL_ROOT"' EXIT
cd /verif/benign || exit 2
ids=${@:-$(ls -d */ | tr -d /)}
ALL="C01 C02 C03 C04 C06 C07 C09 C10 C11 C12 C13 C14 C15 C16 C18 C20"
for id in $ids; do echo $id; done | xargs -P ${BENIGN_PAR:-3} -I{} bash -c "VERIF_WORKERS=8 /verif/tools/mutant_run.sh /verif/benign/{}/patch.diff $ALL 2>&1 | sed 's|^patch.diff|benign/{}|' | cut -c1-300"
