#!/usr/bin/env python3
"""tools/seeded_import.py <Cxx> [k…]

Imports the seeded changes a sub-agent left in /tmp/wt-<Cxx>/seeded/<k>/ into
/verif/seeded/<Cxx>-<k>/ after confirming, in a fresh scratch worktree of /repo's
HEAD (removed afterwards), that
  (a) the patch applies, the library builds and the existing suite still passes,
  (b) the demonstration fails with the change and passes without it.
Only confirmed changes are kept. What was run is recorded in meta.json.
"""
import json, os, shutil, subprocess, sys, tempfile

ENV = dict(os.environ, GOFLAGS='-mod=mod', GOPROXY='off', GOSUMDB='off')

def sh(cmd, cwd, timeout=900):
    try:
        r = subprocess.run(cmd, shell=True, executable='/bin/bash', cwd=cwd, env=ENV, capture_output=True, text=True, timeout=timeout)
        return r.returncode, (r.stdout + r.stderr)
    except subprocess.TimeoutExpired:
        return 124, 'timeout'

def suite_ok(wt):
    code, out = sh('go build ./...', wt)
    if code != 0:
        return False, out
    code, out = sh('go test -vet=off -count=1 $(go list ./... | grep -v /seeded) 2>&1', wt)
    for l in out.splitlines():
        if l.startswith('FAIL\t') and 'sgip/sgip12' not in l and '/seeded' not in l:
            return False, out
    return True, out

def failed(code, out):
    return code != 0 or '--- FAIL' in out or '\nFAIL' in out or out.startswith('FAIL') or 'panic:' in out or 'DATA RACE' in out

def main():
    prop = sys.argv[1]
    base = os.environ.get('SEED_SRC', '/tmp/wt-%s') % prop
    offset = int(os.environ.get('SEED_OFFSET', '0'))
    src_root = base + '/seeded'
    ks = sys.argv[2:] or sorted(d for d in os.listdir(src_root) if os.path.isdir(os.path.join(src_root, d)))
    for k in ks:
        src = os.path.join(src_root, k)
        if not os.path.exists(os.path.join(src, 'patch.diff')):
            continue
        meta = json.load(open(os.path.join(src, 'meta.json')))
        wt = tempfile.mkdtemp(prefix=f'verify-{prop}-{k}-', dir='/tmp')
        os.rmdir(wt)
        subprocess.run(['git', '-C', '/repo', 'worktree', 'add', '-q', '--detach', wt, 'HEAD'], check=True)
        res = {}
        try:
            shutil.copytree(src_root, os.path.join(wt, 'seeded'))
            demo = meta.get('demo_cmd', '').replace('<worktree>', wt).replace(base, wt)
            # --- without the change
            c0, o0 = sh(demo, wt)
            res['demo_without_change'] = 'pass' if not failed(c0, o0) else 'FAIL'
            sh('git checkout -- . && git clean -fdq -e seeded', wt)
            # --- with the change
            ca, oa = sh('git apply seeded/%s/patch.diff' % k, wt)
            res['applies'] = ca == 0
            if ca == 0:
                ok, out = suite_ok(wt)
                res['suite_passes_with_change'] = ok
                c1, o1 = sh(demo, wt)
                res['demo_with_change'] = 'fail' if failed(c1, o1) else 'PASS'
                res['demo_output_tail'] = o1[-600:]
            good = res.get('applies') and res.get('suite_passes_with_change') and res.get('demo_with_change') == 'fail' and res['demo_without_change'] == 'pass'
            res['confirmed'] = bool(good)
        finally:
            subprocess.run(['git', '-C', '/repo', 'worktree', 'remove', '--force', wt])
            shutil.rmtree(wt, ignore_errors=True)
        print(prop, k, json.dumps({x: res[x] for x in res if x != 'demo_output_tail'}))
        if not res.get('confirmed'):
            print('   NOT KEPT; demo tail:', res.get('demo_output_tail', '')[-300:].replace('\n', ' | '))
            continue
        dst = f'/verif/seeded/{prop}-{int(k) + offset}'
        shutil.rmtree(dst, ignore_errors=True)
        os.makedirs(dst)
        for f in os.listdir(src):
            p = os.path.join(src, f)
            if os.path.isfile(p):
                shutil.copy(p, dst)
            else:
                shutil.copytree(p, os.path.join(dst, f))
        meta['property'] = meta.get('property', prop)
        meta['origin'] = 'independent sub-agent given only the property text and a scratch worktree'
        meta['confirmed_by'] = {'what_was_run': [
            'fresh scratch worktree of /repo HEAD under /tmp (removed afterwards)',
            'demo_cmd without the change -> pass',
            'git apply patch.diff; go build ./...; go test -vet=off -count=1 ./... -> suite passes (sgip/sgip12 link failure is pre-existing)',
            'demo_cmd with the change -> fails'], **{x: res[x] for x in res if x != 'demo_output_tail'}}
        json.dump(meta, open(os.path.join(dst, 'meta.json'), 'w'), indent=1, ensure_ascii=False)

main()
