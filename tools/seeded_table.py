#!/usr/bin/env python3
"""tools/seeded_table.py <eval-log> : writes /verif/seeded/RESULTS.md from the output of tools/seeded_eval.sh."""
import json, sys, re, glob, os
rows = {}
for l in open(sys.argv[1]):
    m = re.match(r'seeded/(\S+) (C\d+) exit=(\d+) violations=(\d+)\s*(.*)', l)
    if m:
        rows.setdefault(m.group(1), []).append((m.group(2), m.group(3), m.group(4), m.group(5).strip()))
out = ['# Seeded changes and which checks catch them', '',
       'Produced by `tools/seeded_eval.sh` (quick tier, VERIF_SEED=1): each change is applied to /repo\'s working tree,',
       'the quick checks of the properties named in its meta.json are run, the tree is restored.', '',
       '| id | breaks | what (summary by its author) | needs to manifest | check → result (first finding keys) |', '|---|---|---|---|---|']
for d in sorted(glob.glob('/verif/seeded/*/meta.json'), key=lambda p: (p.split('/')[-2].split('-')[0], int(p.split('/')[-2].split('-')[1]))):
    i = d.split('/')[-2]
    m = json.load(open(d))
    res = []
    for (prop, code, nv, keys) in rows.get(i, []):
        k = ' '.join(keys.split()[:2])
        res.append(f"{prop}: {'DETECTED' if code == '1' else ('missed' if code == '0' else 'trouble')} {('`'+k+'`') if k else ''}")
    def cell(s): return str(s).replace('|', '\\|').replace('\n', ' ')[:300]
    out.append(f"| {i} | {m.get('property')} | {cell(m.get('summary',''))} | {cell(m.get('needs_to_manifest',''))} | {'<br>'.join(res) or 'not evaluated'} |")
open('/verif/seeded/RESULTS.md', 'w').write('\n'.join(out) + '\n')
print(len(out) - 7, 'rows')
