#!/bin/bash
# tools/seeded_eval.sh [<id>…] : for every kept seeded change /verif/seeded/<id>/patch.diff run the quick checks of the
# properties listed in its meta.json ("property" plus "also") against a scratch tree carrying the change
# (tools/mutant_run.sh; four evaluations side by side). One line per (change, property).
set -u
# the evaluation works on a snapshot of /verif taken now, so that editing the harness meanwhile does not disturb it
export VERIF_EVAL_ROOT=$(mktemp -d /tmp/verif-eval-XXXXXX)
rsync -a --exclude .build --exclude replays --exclude .git /verif/ "$VERIF_EVAL_ROOT"/
trap 'rm -rf "$VERIF_EVAL_ROOT"' EXIT
cd /verif/seeded || exit 2
ids=${@:-$(ls -d */ | tr -d /)}
for id in $ids; do echo $id; done | xargs -P ${SEEDED_PAR:-4} -I{} bash -c '
  id={}; props=$(python3 -c "import json;m=json.load(open(\"/verif/seeded/$id/meta.json\"));print(\" \".join([m[\"property\"]]+m.get(\"also\",[])))")
  VERIF_WORKERS=8 /verif/tools/mutant_run.sh /verif/seeded/$id/patch.diff $props 2>&1 | sed "s|^patch.diff|seeded/$id|" | cut -c1-400'
