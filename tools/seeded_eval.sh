#!/bin/bash
# tools/seeded_eval.sh [<id>…] : for every kept seeded change /verif/seeded/<id>/patch.diff apply it to /repo's
# working tree, run the quick checks of the properties listed in meta.json ("property" plus "also"), undo it.
# Prints one line per (change, property): exit code, number of VIOLATION lines and the first finding keys.
set -u
cd /verif/seeded || exit 2
ids=${@:-$(ls -d */ | tr -d /)}
for id in $ids; do
  props=$(python3 -c "import json;m=json.load(open('/verif/seeded/$id/meta.json'));print(' '.join([m['property']]+m.get('also',[])))")
  VERIF_SCALE_PCT=${VERIF_SCALE_PCT:-100} /verif/tools/mutant_run.sh /verif/seeded/$id/patch.diff $props 2>&1 | sed "s|^patch.diff|seeded/$id|" | cut -c1-400
done
