#!/bin/bash
# tools/seed_sweep.sh <seed>… : every quick check under other values of VERIF_SEED (evidence and replays go to a scratch
# build directory, /verif/evidence is left alone). One line per (seed, property); anything but exit=0 needs a look.
export VERIF_BUILD=${VERIF_BUILD:-/tmp/verif-sweep-build}
mkdir -p "$VERIF_BUILD"
cd /verif || exit 2
for s in "$@"; do for p in C01 C02 C03 C04 C06 C07 C09 C10 C11 C12 C13 C14 C15 C16 C18 C20; do
  out=$(VERIF_SEED=$s ./check $p quick 2>&1); code=$?
  echo "seed=$s $p exit=$code violations=$(echo "$out" | grep -c '^VIOLATION') $(echo "$out" | grep '^finding\|HARNESS' | head -3 | cut -c1-200)"
done; done
