#!/bin/bash
# tools/coverage.sh [scale%] : statement coverage of the library reached by the quick tier of every scenario
# (one worker per property, coverage-instrumented build in a scratch directory under /tmp, removed afterwards).
# Prints per-property and merged totals and the library functions the simulator never enters.
# A reach measure only: nothing here decides a property.
set -u
scale=${1:-30}
root=$(cd "$(dirname "$(readlink -f "$0")")/.." && pwd)
export GOFLAGS=-mod=mod GOPROXY=off GOSUMDB=off GOTOOLCHAIN=local CGO_ENABLED=0
d=$(mktemp -d /tmp/verif-cov-XXXX); trap 'rm -rf "$d"' EXIT
cd "$root/sim" || exit 2
go1.26.8 test -c -tags verif -cover -coverpkg=github.com/hujm2023/go-sms-protocol/... -o $d/sim.test . || exit 2
for p in C01 C02 C03 C04 C06 C07 C09 C10 C11 C12 C13 C14 C15 C16 C18 C20; do
  ( VERIF_PROP=$p VERIF_TIER=quick VERIF_SEED=${VERIF_SEED:-1} VERIF_WORKER=0 VERIF_WORKERS=${COV_WORKERS:-1} VERIF_OUT=$d/$p VERIF_ROOT=$root \
    VERIF_KNOWN=$root/known_findings.json VERIF_SCALE_PCT=$scale GOMAXPROCS=1 \
    $d/sim.test -test.run '^TestWorker$' -test.count 1 -test.coverprofile $d/$p.prof > $d/$p.log 2>&1
    echo "$p $(grep -o 'coverage: [0-9.]*%' $d/$p.log)" ) &
done
wait
{ echo "mode: set"; cat $d/C*.prof | grep -v '^mode:' | sort -u; } > $d/all.prof
# merge: a block counts as covered when any profile has count > 0
python3 - $d/all.prof > $d/merged.prof <<'P'
import sys
seen={}
for l in open(sys.argv[1]):
    if l.startswith('mode:'): continue
    k,n,c=l.rsplit(' ',2)
    seen[(k,n)]=max(seen.get((k,n),0),int(c))
print('mode: set')
for (k,n),c in sorted(seen.items()): print(k,n,1 if c else 0)
P
go1.26.8 tool cover -func=$d/merged.prof > $d/func.txt
tail -1 $d/func.txt
echo "--- library functions never entered (mocks, generated stringers and test helpers excluded):"
grep -v '_mock\|mock_\|/verifhook/' $d/func.txt | awk '$NF=="0.0%"{print $1, $2}'
echo "--- functions below 60%:"
grep -v '_mock\|mock_\|/verifhook/' $d/func.txt | awk '{v=$NF; sub("%","",v); if (v+0>0 && v+0<60) print $1,$2,$NF}'
[ -n "${COV_KEEP:-}" ] && cp $d/merged.prof "$COV_KEEP"
