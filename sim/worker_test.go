package sim

import (
	"encoding/binary"
	"encoding/json"
	"fmt"
	"os"
	"runtime"
	"runtime/debug"
	"sort"
	"strconv"
	"strings"
	"testing"
	"testing/synctest"
	"time"

	"verif/sim/core"
	"verif/sim/scen"
)

// ---------------------------------------------------------------------------
// shared types between worker and driver

func env(k, def string) string {
	if v := os.Getenv(k); v != "" {
		return v
	}
	return def
}

func envU(k string, def uint64) uint64 {
	v, err := strconv.ParseUint(env(k, ""), 10, 64)
	if err != nil {
		return def
	}
	return v
}

func loadKnown(path string) map[string]bool {
	m := map[string]bool{}
	if path == "" {
		return m
	}
	b, err := os.ReadFile(path)
	if err != nil {
		return m
	}
	var kf core.KnownFile
	if json.Unmarshal(b, &kf) != nil {
		fmt.Fprintln(os.Stderr, "HARNESS: known findings file does not parse")
		os.Exit(2)
	}
	for _, e := range kf.Findings {
		if e.Status == "known" {
			m[e.Key] = true
		}
	}
	return m
}

// execute performs one simulated run.
func execute(t *testing.T, sc *scen.Scenario, cfg core.Config, ch *core.Chooser, known map[string]bool) *core.Run {
	r := core.NewRun(ch, cfg, known)
	if sc.Pools {
		// start every run (and therefore every replay) from empty pools
		runtime.GC()
		runtime.GC()
	}
	if sc.Bubble {
		func() {
			defer func() {
				if v := recover(); v != nil {
					s := fmt.Sprint(v)
					if strings.Contains(s, "deadlock") {
						r.Event("bubble ended with blocked goroutines: %s", s)
						r.Aborted = true
						return
					}
					panic(v)
				}
			}()
			synctest.Test(t, func(t *testing.T) { sc.Run(r) })
		}()
	} else {
		sc.Run(r)
	}
	return r
}

var curFile *os.File

func setCur(s string) {
	if curFile == nil {
		return
	}
	b := make([]byte, 256)
	for i := range b {
		b[i] = ' '
	}
	copy(b, s)
	b[255] = '\n'
	curFile.WriteAt(b, 0)
}

func TestWorker(t *testing.T) {
	prop := os.Getenv("VERIF_PROP")
	if prop == "" {
		t.Skip("not invoked by the driver")
	}
	runtime.GOMAXPROCS(1)
	debug.SetGCPercent(400)
	tier := env("VERIF_TIER", "quick")
	seed := envU("VERIF_SEED", 1)
	w := envU("VERIF_WORKER", 0)
	W := envU("VERIF_WORKERS", 1)
	out := env("VERIF_OUT", "")
	scale := envU("VERIF_SCALE_PCT", 100)
	known := loadKnown(os.Getenv("VERIF_KNOWN"))
	scName := scen.PropScenario[prop]
	sc := scen.Registry[scName]
	if sc == nil {
		fmt.Fprintln(os.Stderr, "HARNESS: no scenario for", prop)
		os.Exit(2)
	}
	if out != "" {
		curFile, _ = os.Create(out + ".cur")
	}
	start := time.Now()
	stats := core.NewStats()
	res := &core.WorkerOut{Stats: stats}
	sigs := map[uint64]struct{}{}
	reported := map[string]bool{}

	// watchdog: real time, outside any bubble
	var curCfg core.Config
	var curSeed uint64
	go func() {
		last, _ := core.HeartState()
		lastChange := time.Now()
		for {
			time.Sleep(500 * time.Millisecond)
			n, label := core.HeartState()
			if n != last {
				last, lastChange = n, time.Now()
				continue
			}
			if time.Since(lastChange) > 30*time.Second {
				if pf := os.Getenv("VERIF_PLATFORM"); pf != "" {
					curCfg.Arch = pf
				} else if runtime.GOARCH != "amd64" {
					curCfg.Arch = runtime.GOARCH
				}
				res.Hang = &core.HangInfo{Label: label, Config: curCfg, Seed: curSeed}
				res.WallS = time.Since(start).Seconds()
				writeOut(out, res, sigs)
				os.Exit(3)
			}
		}
	}()

	for _, b := range sc.Plan(prop, tier) {
		count := b.Count
		if !b.Exhaustive {
			count = count * scale / 100
			if count == 0 {
				count = 1
			}
		}
		if b.Exhaustive {
			stats.Exhaustive[b.Mode] = true
		}
		for i := w; i < count; i += W {
			cfg := core.Config{Property: prop, Scenario: scName, Tier: tier, Mode: b.Mode, Index: i, Group: b.Group}
			runSeed := core.Mix(seed, prop+"/"+b.Mode, i/max(b.Group, 1))
			curCfg, curSeed = cfg, runSeed
			setCur(fmt.Sprintf("%s %s %d %d %d", prop, b.Mode, i, runSeed, b.Group))
			core.Beat("harness")
			r := execute(t, sc, cfg, core.NewSeedChooser(runSeed), known)
			nontrivial := stats.Add(r)
			if nontrivial {
				sigs[r.Sig64()] = struct{}{}
				if len(stats.Samples) < 2 {
					tr := r.Trace()
					if len(tr) > 40 {
						tr = append(tr[:40], fmt.Sprintf("… %d more events", int(r.NEvents())-40))
					}
					stats.Samples = append(stats.Samples, core.Sample{Run: i, Seed: runSeed, Mode: b.Mode, Trace: tr})
				}
			}
			for _, f := range r.Findings {
				if f.Property != prop {
					continue
				}
				if known[f.Key] {
					stats.KnownSeen[f.Key]++
					continue
				}
				if reported[f.Key] {
					continue
				}
				reported[f.Key] = true
				v := minimise(t, sc, cfg, seed, runSeed, r, f, known)
				v.History = &core.HistoryInfo{Worker: w, Workers: W, ScalePct: scale}
				res.Violations = append(res.Violations, v)
			}
			if len(reported) >= 2 {
				break
			}
		}
		if len(reported) >= 2 {
			break
		}
	}
	res.WallS = time.Since(start).Seconds()
	res.Done = true
	writeOut(out, res, sigs)
}

func minimise(t *testing.T, sc *scen.Scenario, cfg core.Config, seed, runSeed uint64, r *core.Run, f core.Finding, known map[string]bool) core.ReplayFile {
	orig := append([]uint64(nil), r.C.Tape...)
	try := func(tape []uint64) bool {
		rr := execute(t, sc, cfg, core.NewReplayChooser(tape), known)
		for _, g := range rr.Findings {
			if g.Key == f.Key {
				return true
			}
		}
		return false
	}
	tape, runs := orig, 0
	if try(orig) {
		tape, runs = core.Minimise(orig, try, 1500, 20*time.Second)
	}
	// final run for trace / signature / detail
	rr := execute(t, sc, cfg, core.NewReplayChooser(tape), known)
	detail := f.Detail
	for _, g := range rr.Findings {
		if g.Key == f.Key {
			detail = g.Detail
		}
	}
	if pf := os.Getenv("VERIF_PLATFORM"); pf != "" {
		cfg.Arch = pf
	} else if runtime.GOARCH != "amd64" {
		cfg.Arch = runtime.GOARCH
	}
	return core.ReplayFile{Property: f.Property, Scenario: sc.Name, Config: cfg, Seed: seed, RunSeed: runSeed, Key: f.Key,
		Detail: detail, Tape: tape, Signature: rr.Signature(), Trace: rr.Trace(), MinRuns: runs, OrigTape: len(orig)}
}

func writeOut(out string, res *core.WorkerOut, sigs map[uint64]struct{}) {
	if out == "" {
		b, _ := json.MarshalIndent(res, "", " ")
		fmt.Println(string(b))
		return
	}
	b, _ := json.Marshal(res)
	os.WriteFile(out+".json", b, 0o644)
	// sorted 64-bit signature prefixes, so that the driver can count the union by a streaming merge
	keys := make([]uint64, 0, len(sigs))
	for s := range sigs {
		keys = append(keys, s)
	}
	sort.Slice(keys, func(i, j int) bool { return keys[i] < keys[j] })
	buf := make([]byte, 8*len(keys))
	for i, k := range keys {
		binary.LittleEndian.PutUint64(buf[8*i:], k)
	}
	os.WriteFile(out+".sigs", buf, 0o644)
}

// TestReplay re-executes a replay file in a fresh process. It prints
// REPLAY key=<key> signature=<sig> reproduced=<bool>.
func TestReplay(t *testing.T) {
	path := os.Getenv("VERIF_REPLAY")
	if path == "" {
		t.Skip("not invoked by the driver")
	}
	runtime.GOMAXPROCS(1)
	b, err := os.ReadFile(path)
	if err != nil {
		fmt.Println("HARNESS: cannot read replay file:", err)
		os.Exit(2)
	}
	var rf core.ReplayFile
	if err := json.Unmarshal(b, &rf); err != nil {
		fmt.Println("HARNESS: replay file does not parse:", err)
		os.Exit(2)
	}
	sc := scen.Registry[rf.Scenario]
	if sc == nil {
		fmt.Println("HARNESS: unknown scenario", rf.Scenario)
		os.Exit(2)
	}
	known := loadKnown(os.Getenv("VERIF_KNOWN"))
	if os.Getenv("VERIF_ISOLATE") != "" {
		if f, err := os.Create(os.Getenv("VERIF_ISOLATE")); err == nil {
			curFile = f
			core.BeatSink = func(l string) { setCur(l) }
		}
	}
	if os.Getenv("VERIF_REPLAY_HISTORY") != "" && rf.History != nil {
		// re-execute the finder's whole run sequence up to the failing run
		h := rf.History
		var last *core.Run
		n := 0
	outer:
		for _, b := range sc.Plan(rf.Property, rf.Config.Tier) {
			count := b.Count
			if !b.Exhaustive {
				count = count * h.ScalePct / 100
				if count == 0 {
					count = 1
				}
			}
			for i := h.Worker; i < count; i += h.Workers {
				cfg := core.Config{Property: rf.Property, Scenario: rf.Scenario, Tier: rf.Config.Tier, Mode: b.Mode, Index: i, Group: b.Group}
				core.Beat("harness")
				last = execute(t, sc, cfg, core.NewSeedChooser(core.Mix(rf.Seed, rf.Property+"/"+b.Mode, i/max(b.Group, 1))), known)
				n++
				if b.Mode == rf.Config.Mode && i == rf.Config.Index {
					break outer
				}
			}
		}
		rep := false
		if last != nil {
			for _, f := range last.Findings {
				if f.Key == rf.Key {
					rep = true
					fmt.Printf("DETAIL %s\n", f.Detail)
				}
			}
			fmt.Printf("REPLAY key=%s signature=%s reproduced=%v history_runs=%d\n", rf.Key, last.Signature(), rep, n)
		}
		return
	}
	var ch *core.Chooser
	if rf.Tape == nil && rf.RunSeed == 0 {
		rf.RunSeed = core.Mix(rf.Seed, rf.Config.Property+"/"+rf.Config.Mode, rf.Config.Index/max(rf.Config.Group, 1))
	}
	if rf.Tape == nil && rf.RunSeed != 0 {
		ch = core.NewSeedChooser(rf.RunSeed)
	} else {
		ch = core.NewReplayChooser(rf.Tape)
	}
	go func() {
		time.Sleep(60 * time.Second)
		_, label := core.HeartState()
		fmt.Printf("REPLAY key=%s hang=%s reproduced=%v\n", rf.Key, label, strings.Contains(rf.Key, "|hang|"))
		os.Exit(0)
	}()
	r := execute(t, sc, rf.Config, ch, known)
	rep := false
	for _, f := range r.Findings {
		if f.Key == rf.Key {
			rep = true
			fmt.Printf("DETAIL %s\n", f.Detail)
		}
	}
	if os.Getenv("VERIF_VERBOSE") != "" {
		for _, l := range r.Trace() {
			fmt.Println(l)
		}
		for _, f := range r.Findings {
			fmt.Printf("FINDING %s :: %s\n", f.Key, f.Detail)
		}
	}
	fmt.Printf("REPLAY key=%s signature=%s reproduced=%v\n", rf.Key, r.Signature(), rep)
}

// TestSignature executes runs of a property in seed mode and prints one
// signature per run; the determinism self-test diffs the output of several
// processes.
func TestSignature(t *testing.T) {
	prop := os.Getenv("VERIF_SIG_PROP")
	if prop == "" {
		t.Skip("not invoked by the driver")
	}
	runtime.GOMAXPROCS(int(envU("VERIF_SIG_PROCS", 1)))
	seed := envU("VERIF_SEED", 1)
	n := envU("VERIF_SIG_RUNS", 50)
	known := loadKnown(os.Getenv("VERIF_KNOWN"))
	sc := scen.Registry[scen.PropScenario[prop]]
	for _, b := range sc.Plan(prop, "quick") {
		cnt := min(b.Count, n)
		for i := uint64(0); i < cnt; i++ {
			cfg := core.Config{Property: prop, Scenario: sc.Name, Tier: "quick", Mode: b.Mode, Index: i, Group: b.Group}
			r := execute(t, sc, cfg, core.NewSeedChooser(core.Mix(seed, prop+"/"+b.Mode, i/max(b.Group, 1))), known)
			keys := []string{}
			for _, f := range r.Findings {
				keys = append(keys, f.Key)
			}
			fmt.Printf("SIG %s %s %d %s %d %v\n", prop, b.Mode, i, r.Signature()[:24], len(r.C.Tape), keys)
		}
	}
}

// TestMeta prints the scenario metadata of a property for the driver.
func TestMeta(t *testing.T) {
	prop := os.Getenv("VERIF_META_PROP")
	if prop == "" {
		t.Skip("not invoked by the driver")
	}
	sc := scen.Registry[scen.PropScenario[prop]]
	if sc == nil {
		return
	}
	b, _ := json.Marshal(map[string]any{"name": sc.Name, "real": sc.Real, "stub": sc.Stub, "rule": sc.Rule})
	fmt.Println("META " + string(b))
}

// TestRaceLeg is leg B of C13 (built with -race by the driver): seeded
// workloads free-running at the GOMAXPROCS given, for a number of workloads or
// until the time budget is used. Prints RACELEG lines; the race detector itself
// reports data races on stderr and makes the process exit with status 66.
func TestRaceLeg(t *testing.T) {
	if os.Getenv("VERIF_RACE") == "" {
		t.Skip("not invoked by the driver")
	}
	procs := int(envU("VERIF_RACE_PROCS", 4))
	runtime.GOMAXPROCS(procs)
	seed := envU("VERIF_SEED", 1)
	n := envU("VERIF_RACE_RUNS", 200)
	from := envU("VERIF_RACE_FROM", 0)
	budget := time.Duration(envU("VERIF_RACE_SECONDS", 8)) * time.Second
	start := time.Now()
	done, tasks, ops := uint64(0), 0, 0
	for i := from; i < from+n && time.Since(start) < budget; i++ {
		m, nt, no := scen.RaceWorkload(seed, i, os.Getenv("VERIF_RACE_COLD") != "" && i == from)
		done++
		tasks += nt
		ops += no
		if m != "" {
			fmt.Printf("RACELEG MISMATCH procs=%d workload=%d %s\n", procs, i, m)
			break
		}
	}
	fmt.Printf("RACELEG DONE procs=%d workloads=%d tasks=%d ops=%d wall=%.1fs\n", procs, done, tasks, ops, time.Since(start).Seconds())
}
