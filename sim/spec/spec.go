// Package spec is the independent model peer: a table-driven encoder, decoder
// and framer for the 57 PDU types, driven only by /verif/spec/layouts.spec
// (transcribed from the specification PDFs). It contains no code from /repo.
package spec

import (
	"bufio"
	"encoding/binary"
	"errors"
	"fmt"
	"os"
	"sort"
	"strconv"
	"strings"
)

type Kind int

const (
	KU8 Kind = iota
	KU16
	KU32
	KU64
	KStr    // fixed-width text slot, NUL padded
	KBin    // fixed-width binary slot
	KCStr   // NUL-terminated, Width = maximum including the NUL
	KOctets // Ref = name of the length field
	KRep    // Ref = name of the count field, Width = width of each str slot
	KSeq3
	KTLVs
	KOptions
)

type Field struct {
	Name    string
	Kind    Kind
	Width   int
	Ref     string
	GoField string
}

func (f *Field) IsInt() bool { return f.Kind <= KU64 }
func (f *Field) IntBits() int {
	switch f.Kind {
	case KU8:
		return 8
	case KU16:
		return 16
	case KU32:
		return 32
	case KU64:
		return 64
	}
	return 0
}

type PDU struct {
	Proto   *Proto
	Name    string
	IDs     []uint32
	Resp    string
	Section string
	Fields  []*Field
	IsBody  bool // a sub-structure without header (CMPP status report)
}

func (p *PDU) Site() string { return p.Proto.Name + "." + p.Name }

func (p *PDU) Field(name string) *Field {
	for _, f := range p.Fields {
		if f.Name == name {
			return f
		}
	}
	return nil
}

// HasTail reports whether the PDU ends with optional parameters.
func (p *PDU) HasTail() bool {
	n := len(p.Fields)
	return n > 0 && (p.Fields[n-1].Kind == KTLVs || p.Fields[n-1].Kind == KOptions)
}

func (p *PDU) IsResponse() bool { return len(p.IDs) > 0 && p.IDs[0]&0x80000000 != 0 }

type Proto struct {
	Name   string
	Header string // cmpp12 | sgip20 | smpp16
	GoPkg  string
	PDUs   []*PDU
	Bodies []*PDU
}

func (p *Proto) HeaderLen() int {
	switch p.Header {
	case "sgip20":
		return 20
	case "smpp16":
		return 16
	}
	return 12
}

func (p *Proto) PDU(name string) *PDU {
	for _, x := range p.PDUs {
		if x.Name == name {
			return x
		}
	}
	return nil
}

func (p *Proto) ByID(id uint32) *PDU {
	for _, x := range p.PDUs {
		for _, i := range x.IDs {
			if i == id {
				return x
			}
		}
	}
	return nil
}

type Spec struct {
	Protos []*Proto
}

func (s *Spec) Proto(name string) *Proto {
	for _, p := range s.Protos {
		if p.Name == name {
			return p
		}
	}
	return nil
}

func (s *Spec) AllPDUs() []*PDU {
	var out []*PDU
	for _, p := range s.Protos {
		out = append(out, p.PDUs...)
	}
	return out
}

func kv(tok string) (string, string) {
	i := strings.IndexByte(tok, '=')
	if i < 0 {
		return tok, ""
	}
	return tok[:i], tok[i+1:]
}

func Load(path string) (*Spec, error) {
	f, err := os.Open(path)
	if err != nil {
		return nil, err
	}
	defer f.Close()
	s := &Spec{}
	var cur *Proto
	var pdu *PDU
	sc := bufio.NewScanner(f)
	ln := 0
	for sc.Scan() {
		ln++
		line := sc.Text()
		if i := strings.IndexByte(line, '#'); i >= 0 {
			line = line[:i]
		}
		toks := strings.Fields(line)
		if len(toks) == 0 {
			continue
		}
		switch {
		case toks[0] == "protocol":
			cur = &Proto{Name: toks[1]}
			for _, t := range toks[2:] {
				k, v := kv(t)
				switch k {
				case "header":
					cur.Header = v
				case "gopkg":
					cur.GoPkg = v
				}
			}
			s.Protos = append(s.Protos, cur)
			pdu = nil
		case toks[0] == "pdu" || toks[0] == "body":
			if cur == nil {
				return nil, fmt.Errorf("line %d: pdu before protocol", ln)
			}
			pdu = &PDU{Proto: cur, Name: toks[1], IsBody: toks[0] == "body"}
			for _, t := range toks[2:] {
				k, v := kv(t)
				switch k {
				case "id":
					for _, h := range strings.Split(v, "|") {
						n, err := strconv.ParseUint(strings.TrimPrefix(h, "0x"), 16, 32)
						if err != nil {
							return nil, fmt.Errorf("line %d: bad id %q", ln, h)
						}
						pdu.IDs = append(pdu.IDs, uint32(n))
					}
				case "resp":
					pdu.Resp = v
				case "spec":
					pdu.Section = v
				}
			}
			if pdu.IsBody {
				cur.Bodies = append(cur.Bodies, pdu)
			} else {
				cur.PDUs = append(cur.PDUs, pdu)
			}
		default:
			if pdu == nil {
				return nil, fmt.Errorf("line %d: field outside pdu: %q", ln, line)
			}
			fd := &Field{Name: toks[0], GoField: toks[len(toks)-1]}
			k := toks[1 : len(toks)-1]
			bad := func() (*Spec, error) { return nil, fmt.Errorf("line %d: cannot parse field %q", ln, line) }
			if len(k) == 0 {
				return bad()
			}
			switch k[0] {
			case "u8":
				fd.Kind = KU8
			case "u16":
				fd.Kind = KU16
			case "u32":
				fd.Kind = KU32
			case "u64":
				fd.Kind = KU64
			case "seq3":
				fd.Kind = KSeq3
			case "tlvs":
				fd.Kind = KTLVs
			case "options":
				fd.Kind = KOptions
			case "str", "bin", "cstr":
				if len(k) != 2 {
					return bad()
				}
				fd.Width, _ = strconv.Atoi(k[1])
				fd.Kind = map[string]Kind{"str": KStr, "bin": KBin, "cstr": KCStr}[k[0]]
			case "octets":
				if len(k) != 2 {
					return bad()
				}
				fd.Kind, fd.Ref = KOctets, k[1]
			case "rep":
				if len(k) != 4 || k[2] != "str" {
					return bad()
				}
				fd.Kind, fd.Ref = KRep, k[1]
				fd.Width, _ = strconv.Atoi(k[3])
			default:
				return bad()
			}
			pdu.Fields = append(pdu.Fields, fd)
		}
	}
	return s, sc.Err()
}

// ---------------------------------------------------------------------------
// Values

type Triplet struct {
	Tag uint16
	Val []byte
}

type Val struct {
	U   uint64
	B   []byte   // str / bin / cstr / octets
	Raw []byte   // str only: the exact Width octets on the wire (junk after the NUL allowed); nil = canonical padding
	L   [][]byte // rep
	S   [3]uint32
	T   []Triplet
}

type Msg struct {
	PDU    *PDU
	CmdID  uint32
	Seq    [3]uint32 // SGIP uses all three words, the other protocols Seq[0]
	Status uint32    // SMPP command_status
	F      map[string]*Val
	// filled by Parse
	DeclaredLen uint32
	Trailing    []byte
}

func (m *Msg) V(name string) *Val {
	v := m.F[name]
	if v == nil {
		v = &Val{}
		m.F[name] = v
	}
	return v
}

// Build assembles the specification-conformant image of m. It returns the
// image and the offset at which the mandatory part ends (= start of the
// optional-parameter tail, or the end of the image).
func Build(m *Msg) (img []byte, mandEnd int) {
	p := m.PDU
	b := make([]byte, 0, 64)
	if !p.IsBody {
		b = append(b, 0, 0, 0, 0)
		b = binary.BigEndian.AppendUint32(b, m.CmdID)
		switch p.Proto.Header {
		case "sgip20":
			b = binary.BigEndian.AppendUint32(b, m.Seq[0])
			b = binary.BigEndian.AppendUint32(b, m.Seq[1])
			b = binary.BigEndian.AppendUint32(b, m.Seq[2])
		case "smpp16":
			b = binary.BigEndian.AppendUint32(b, m.Status)
			b = binary.BigEndian.AppendUint32(b, m.Seq[0])
		default:
			b = binary.BigEndian.AppendUint32(b, m.Seq[0])
		}
	}
	mandEnd = -1
	for _, f := range p.Fields {
		v := m.F[f.Name]
		if v == nil {
			v = &Val{}
		}
		switch f.Kind {
		case KU8:
			b = append(b, byte(v.U))
		case KU16:
			b = binary.BigEndian.AppendUint16(b, uint16(v.U))
		case KU32:
			b = binary.BigEndian.AppendUint32(b, uint32(v.U))
		case KU64:
			b = binary.BigEndian.AppendUint64(b, v.U)
		case KStr:
			if v.Raw != nil {
				b = append(b, v.Raw...)
			} else {
				slot := make([]byte, f.Width)
				copy(slot, v.B)
				b = append(b, slot...)
			}
		case KBin:
			slot := make([]byte, f.Width)
			copy(slot, v.B)
			b = append(b, slot...)
		case KCStr:
			b = append(b, v.B...)
			b = append(b, 0)
		case KOctets:
			b = append(b, v.B...)
		case KRep:
			for _, e := range v.L {
				slot := make([]byte, f.Width)
				copy(slot, e)
				b = append(b, slot...)
			}
		case KSeq3:
			for _, w := range v.S {
				b = binary.BigEndian.AppendUint32(b, w)
			}
		case KTLVs, KOptions:
			mandEnd = len(b)
			for _, t := range v.T {
				b = binary.BigEndian.AppendUint16(b, t.Tag)
				b = binary.BigEndian.AppendUint16(b, uint16(len(t.Val)))
				b = append(b, t.Val...)
			}
		}
	}
	if mandEnd < 0 {
		mandEnd = len(b)
	}
	if !p.IsBody {
		binary.BigEndian.PutUint32(b, uint32(len(b)))
	}
	return b, mandEnd
}

var ErrShort = errors.New("spec: image ends inside a field")

// Parse decodes an image by the table of p. It trusts nothing: every field
// must be completely present.
func Parse(p *PDU, img []byte) (*Msg, error) {
	m := &Msg{PDU: p, F: map[string]*Val{}}
	off := 0
	need := func(n int) bool { return n >= 0 && off+n <= len(img) }
	u32 := func() uint32 { v := binary.BigEndian.Uint32(img[off:]); off += 4; return v }
	if !p.IsBody {
		if !need(p.Proto.HeaderLen()) {
			return m, ErrShort
		}
		m.DeclaredLen = u32()
		m.CmdID = u32()
		switch p.Proto.Header {
		case "sgip20":
			m.Seq = [3]uint32{u32(), u32(), u32()}
		case "smpp16":
			m.Status = u32()
			m.Seq[0] = u32()
		default:
			m.Seq[0] = u32()
		}
	}
	for _, f := range p.Fields {
		v := &Val{}
		m.F[f.Name] = v
		switch f.Kind {
		case KU8, KU16, KU32, KU64:
			n := f.IntBits() / 8
			if !need(n) {
				return m, ErrShort
			}
			for i := 0; i < n; i++ {
				v.U = v.U<<8 | uint64(img[off+i])
			}
			off += n
		case KStr:
			if !need(f.Width) {
				return m, ErrShort
			}
			raw := img[off : off+f.Width]
			off += f.Width
			txt := raw
			for i, c := range raw {
				if c == 0 {
					txt = raw[:i]
					break
				}
			}
			v.B = append([]byte{}, txt...)
			canonical := true
			for _, c := range raw[len(txt):] {
				if c != 0 {
					canonical = false
				}
			}
			if !canonical {
				v.Raw = append([]byte{}, raw...)
			}
		case KBin:
			if !need(f.Width) {
				return m, ErrShort
			}
			v.B = append([]byte{}, img[off:off+f.Width]...)
			off += f.Width
		case KCStr:
			i := off
			for i < len(img) && img[i] != 0 {
				i++
			}
			if i >= len(img) {
				return m, ErrShort
			}
			v.B = append([]byte{}, img[off:i]...)
			off = i + 1
		case KOctets:
			n := int(m.F[f.Ref].U)
			if !need(n) {
				return m, ErrShort
			}
			v.B = append([]byte{}, img[off:off+n]...)
			off += n
		case KRep:
			n := int(m.F[f.Ref].U)
			for i := 0; i < n; i++ {
				if !need(f.Width) {
					return m, ErrShort
				}
				raw := img[off : off+f.Width]
				off += f.Width
				txt := raw
				for j, c := range raw {
					if c == 0 {
						txt = raw[:j]
						break
					}
				}
				v.L = append(v.L, append([]byte{}, txt...))
			}
		case KSeq3:
			if !need(12) {
				return m, ErrShort
			}
			v.S = [3]uint32{u32(), u32(), u32()}
		case KTLVs, KOptions:
			for off < len(img) {
				if !need(4) {
					return m, ErrShort
				}
				tag := binary.BigEndian.Uint16(img[off:])
				l := int(binary.BigEndian.Uint16(img[off+2:]))
				off += 4
				if !need(l) {
					return m, ErrShort
				}
				v.T = append(v.T, Triplet{tag, append([]byte{}, img[off:off+l]...)})
				off += l
			}
		}
	}
	if off < len(img) {
		m.Trailing = append([]byte{}, img[off:]...)
	}
	return m, nil
}

// Frame cuts the next PDU off a stream by trusting its length prefix, as any
// peer implemented from the specifications does. ok=false: not enough octets.
func Frame(stream []byte) (frame, rest []byte, ok bool, err error) {
	if len(stream) < 4 {
		return nil, stream, false, nil
	}
	n := int(binary.BigEndian.Uint32(stream))
	if n < 4 {
		return nil, stream, false, fmt.Errorf("length prefix %d", n)
	}
	if len(stream) < n {
		return nil, stream, false, nil
	}
	return stream[:n], stream[n:], true, nil
}

// ---------------------------------------------------------------------------
// canonical comparison

// Canon renders a message as a sorted, order-independent text (optional
// parameters as a set, last occurrence of a tag wins; nil == empty).
func Canon(m *Msg) map[string]string {
	out := map[string]string{}
	if !m.PDU.IsBody {
		out["@cmd"] = fmt.Sprintf("%#08x", m.CmdID)
		if m.PDU.Proto.Header == "sgip20" {
			out["@seq"] = fmt.Sprint(m.Seq)
		} else {
			out["@seq"] = fmt.Sprint(m.Seq[0])
		}
		if m.PDU.Proto.Header == "smpp16" {
			out["@status"] = fmt.Sprint(m.Status)
		}
	}
	for _, f := range m.PDU.Fields {
		v := m.F[f.Name]
		if v == nil {
			v = &Val{}
		}
		switch f.Kind {
		case KU8, KU16, KU32, KU64:
			out[f.Name] = fmt.Sprint(v.U)
		case KStr, KBin, KCStr, KOctets:
			out[f.Name] = hx(v.B)
		case KRep:
			var sb strings.Builder
			for _, e := range v.L {
				fmt.Fprintf(&sb, "%x,", e)
			}
			out[f.Name] = sb.String()
		case KSeq3:
			out[f.Name] = fmt.Sprint(v.S)
		case KTLVs, KOptions:
			set := map[uint16][]byte{}
			for _, t := range v.T {
				set[t.Tag] = t.Val
			}
			tags := make([]int, 0, len(set))
			for t := range set {
				tags = append(tags, int(t))
			}
			sort.Ints(tags)
			var sb strings.Builder
			for _, t := range tags {
				fmt.Fprintf(&sb, "%d:%s;", t, hx(set[uint16(t)]))
			}
			out[f.Name] = sb.String()
		}
	}
	return out
}

func hx(b []byte) string {
	if len(b) > 48 {
		return fmt.Sprintf("%x…(%d,%08x)", b[:16], len(b), sum(b))
	}
	return fmt.Sprintf("%x", b)
}

func sum(b []byte) uint32 {
	h := uint32(2166136261)
	for _, c := range b {
		h = (h ^ uint32(c)) * 16777619
	}
	return h
}

// Diff returns the names of the fields in which two messages differ.
func Diff(a, b *Msg) []string {
	ca, cb := Canon(a), Canon(b)
	var out []string
	for k, v := range ca {
		if cb[k] != v {
			out = append(out, k)
		}
	}
	for k := range cb {
		if _, ok := ca[k]; !ok {
			out = append(out, k)
		}
	}
	sort.Strings(out)
	return out
}
