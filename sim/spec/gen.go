package spec

import (
	"bytes"
	"fmt"
	"strings"
	"verif/sim/core"
)

// GenOpt steers the generator of well-formed field assignments.
type GenOpt struct {
	MaxDests  int  // destination-list repeat count bound (0..255)
	MaxBody32 int  // bound for bodies whose length field is 32 bits (SGIP)
	BinNoNul  bool // fixed binary fields without 0x00 octets
	NoTail    bool // no optional parameters
	BigTLV    bool // allow optional values up to 65531 octets
	TextOnly  bool // text slots from printable ASCII only
	BodyNoNul bool // message bodies without NUL
	FixedSeq  bool // sequence numbers given by the caller
	Shape     int  // 0 mixed; 1 every variable-length field at its minimum (the smallest image of the type); 2 every one at its maximum
	Twin      int  // > 0: two text fields of the PDU get the SAME value (which two is a function of the number): the payer is the recipient, the sender is the service number; draws nothing from the tape
}

var intEdges = map[int][]uint64{
	8:  {0, 1, 0x7f, 0x80, 0xff, 0x20, 0x30, 0x12, 0x13, 0x34, 4, 8, 15, 246}, // also the protocols' own constants: versions, codings
	16: {0, 1, 0x7fff, 0x8000, 0xffff},
	32: {0, 1, 0x7fffffff, 0x80000000, 0xffffffff},
	64: {0, 1, 0x7fffffffffffffff, 0x8000000000000000, 0xffffffffffffffff},
}

// asciiWords: what the first octets of a big-endian integer spell when they happen to be text.
var asciiWords = []string{"id:12345", "ID:12345", "Id:00000", "stat:DEL", "sub:001 ", "text:abc", "\x05\x00\x03\x01\x02\x01ab", "\x06\x08\x04\x00\x01\x02\x01a"}

func GenInt(c *core.Chooser, bits int) uint64 {
	if bits >= 32 && c.Prob(1, 24) {
		w := asciiWords[c.Intn(len(asciiWords))]
		var x uint64
		for i := 0; i < bits/8; i++ {
			x = x<<8 | uint64(w[i])
		}
		return x
	}
	switch c.Pick(3, 4, 3) {
	case 0:
		return uint64(c.Intn(4))
	case 1:
		e := intEdges[bits]
		return e[c.Intn(len(e))]
	default:
		v := c.Uint64()
		if bits < 64 {
			v &= (1 << uint(bits)) - 1
		}
		return v
	}
}

func genText(c *core.Chooser, max int, o GenOpt) []byte {
	n := 0
	switch o.Shape {
	case 0:
		n = c.Size(max, max)
	case 2:
		n = max
	}
	alpha := "nonul"
	if o.TextOnly || c.Prob(1, 2) {
		alpha = "print"
	}
	b := c.Blob(n, alpha)
	// edge shapes chance would not produce: blanks at the ends, nothing but blanks, digits only
	if n > 0 && o.Shape == 0 {
		switch c.Pick(40, 1, 1, 1, 1, 2, 2) {
		case 6:
			// a phone number the way people write it
			w := "+" + string(c.Blob(n, "digits"))
			if c.Bool() {
				w = "00" + w[1:]
			}
			if len(w) > max {
				w = w[:max]
			}
			b = []byte(w)
		case 5:
			// words the protocols give a meaning to, in some letter case: a decoder may "normalise" them
			w := StateWords[c.Intn(len(StateWords))]
			switch c.Intn(4) {
			case 1:
				w = strings.ToLower(w)
			case 2:
				w = w[:1] + strings.ToLower(w[1:])
			case 3:
				w = strings.ToLower(w[:1]) + w[1:]
			}
			if len(w) <= max {
				b = []byte(w)
			}
		case 1:
			for i := range b {
				b[i] = ' '
			}
		case 2:
			b[n-1] = ' '
		case 3:
			b[0] = ' '
		case 4:
			for i := range b {
				b[i] = '0' + b[i]%10
			}
		}
	}
	return b
}

// StateWords: message states and other words the specifications define.
var StateWords = []string{"DELIVRD", "EXPIRED", "DELETED", "UNDELIV", "ACCEPTD", "UNKNOWN", "REJECTD", "ENROUTE", "CMT", "CPT", "VMN", "WAP", "USSD"}

// StdTags: the optional-parameter tags SMPP 3.4 defines (section 5.3.2); parsers may treat some of them specially.
var StdTags = []uint16{0x0005, 0x0006, 0x0007, 0x0008, 0x000d, 0x000e, 0x000f, 0x0010, 0x0017, 0x0019, 0x001d, 0x001e, 0x0030,
	0x0201, 0x0202, 0x0203, 0x0204, 0x0205, 0x020a, 0x020b, 0x020c, 0x020d, 0x020e, 0x020f, 0x0210, 0x0302, 0x0303, 0x0304, 0x0381,
	0x0420, 0x0421, 0x0422, 0x0423, 0x0424, 0x0425, 0x0426, 0x0427, 0x0501, 0x1201, 0x1203, 0x1204, 0x130c, 0x1380, 0x1383}

// EdgeValue gives an optional value an ending / content a parser might treat specially.
func EdgeValue(c *core.Chooser, v []byte) []byte {
	if len(v) == 0 {
		return v
	}
	switch c.Pick(12, 2, 1, 1) {
	case 1:
		v[len(v)-1] = 0
	case 2:
		for i := range v {
			v[i] = 0
		}
	case 3:
		v[0] = 0
	}
	return v
}

// Gen draws a well-formed assignment for p: text without NUL and no longer
// than its slot, declared counts and lengths equal to the actual ones.
func Gen(c *core.Chooser, p *PDU, o GenOpt) *Msg {
	m := &Msg{PDU: p, F: map[string]*Val{}}
	if len(p.IDs) > 0 {
		m.CmdID = p.IDs[c.Intn(len(p.IDs))]
	}
	if !o.FixedSeq {
		for i := range m.Seq {
			m.Seq[i] = uint32(GenInt(c, 32))
		}
		// a sequence number that equals a command id of the protocol (its own, another type's, with or without the
		// response bit), or the image's own length: header words that coincide
		if p.Proto != nil && len(p.Proto.PDUs) > 0 && c.Prob(1, 16) {
			q := p.Proto.PDUs[c.Intn(len(p.Proto.PDUs))]
			if len(q.IDs) > 0 {
				id := q.IDs[c.Intn(len(q.IDs))]
				if c.Bool() {
					id ^= 0x80000000
				}
				m.Seq[c.Intn(len(m.Seq))] = id
			}
		}
		if p.Proto != nil && p.Proto.Header == "smpp16" {
			m.Status = uint32(GenInt(c, 32))
		}
	}
	// which integer fields are lengths / counts of later fields?
	derived := map[string]bool{}
	for _, f := range p.Fields {
		if f.Ref != "" {
			derived[f.Ref] = true
		}
	}
	for _, f := range p.Fields {
		v := &Val{}
		m.F[f.Name] = v
		switch f.Kind {
		case KU8, KU16, KU32, KU64:
			if !derived[f.Name] {
				v.U = GenInt(c, f.IntBits())
			}
		case KStr:
			v.B = genText(c, f.Width, o)
		case KBin:
			if c.Prob(1, 10) {
				// a binary field whose octets all come from one printable class: it looks like text, like hex
				v.B = c.Blob(f.Width, "any")
				cls := []string{"0123456789", "0123456789abcdef", "0123456789ABCDEF", "abcdefghijklmnopqrstuvwxyz", "id:ID:stat"}[c.Intn(5)]
				for i := range v.B {
					v.B[i] = cls[int(v.B[i])%len(cls)]
				}
			} else if o.BinNoNul {
				v.B = c.Blob(f.Width, "nonul")
			} else {
				v.B = c.Blob(f.Width, "any")
				// place 0x00 deliberately in a share of the runs
				switch c.Pick(5, 1, 1, 1) {
				case 1:
					v.B[c.Intn(f.Width-1)] = 0 // interior
					if v.B[f.Width-1] == 0 {
						v.B[f.Width-1] = 1
					}
				case 2:
					v.B[f.Width-1] = 0 // trailing
				case 3:
					v.B[0] = 0 // leading
				}
			}
		case KCStr:
			v.B = genText(c, f.Width-1, o)
		case KOctets:
			ref := p.Field(f.Ref)
			max := 255
			bounds := []int{0, 1, 140, 159, 160, 254, 255}
			if ref.IntBits() > 8 {
				max = o.MaxBody32
				if max == 0 {
					max = 300
				}
				bounds = []int{0, 1, 140, 255, 256, 65535, 65536}
			}
			n := c.Size(max, bounds...)
			switch o.Shape {
			case 1:
				n = 0
			case 2:
				n = max
			}
			if o.BodyNoNul {
				v.B = c.Blob(n, "nonul")
			} else {
				v.B = c.Blob(n, "any")
				// a body that is a part of a concatenated message (or merely begins like one)
				if n >= 7 && c.Prob(1, 8) {
					tot := 1 + c.Intn(255)
					switch c.Pick(3, 2, 1, 1) {
					case 0:
						copy(v.B, []byte{5, 0, 3, byte(c.Intn(256)), byte(tot), byte(1 + c.Intn(tot))})
					case 1:
						copy(v.B, []byte{6, 8, 4, byte(c.Intn(256)), byte(c.Intn(256)), byte(tot), byte(1 + c.Intn(tot))})
					case 2:
						copy(v.B, []byte{5, 0, 3, byte(c.Intn(256)), byte(c.Intn(3)), byte(c.Intn(256))}) // counters not plausible
					default:
						copy(v.B, []byte{5, 0, 3})
					}
				}
			}
			m.V(f.Ref).U = uint64(n)
		case KRep:
			max := o.MaxDests
			if max == 0 {
				max = 3
			}
			n := c.Size(max, 1, 12, 13, 99, 100, 255)
			switch o.Shape {
			case 1:
				n = c.Intn(2)
			case 2:
				n = max
			}
			for i := 0; i < n; i++ {
				v.L = append(v.L, genText(c, f.Width, o))
			}
			m.V(f.Ref).U = uint64(n)
		case KSeq3:
			for i := range v.S {
				v.S[i] = uint32(GenInt(c, 32))
			}
		case KTLVs, KOptions:
			if o.NoTail || o.Shape == 1 {
				break
			}
			n := 0
			if c.Prob(1, 2) {
				n = c.Size(12, 1, 2)
			}
			used := map[uint16]bool{}
			for i := 0; i < n; i++ {
				var tag uint16
				switch c.Pick(3, 2, 1, 3) {
				case 0:
					tag = uint16(1 + c.Intn(18))
				case 1:
					tag = []uint16{0, 0x0005, 0x001e, 0x0204, 0x020c, 0x0424, 0x0427, 0x1400, 0x3fff, 0xffff}[c.Intn(10)]
				case 3:
					tag = StdTags[c.Intn(len(StdTags))]
				default:
					tag = uint16(c.Uint64())
				}
				if used[tag] {
					continue
				}
				used[tag] = true
				max := 40
				if o.BigTLV && c.Prob(1, 8) {
					max = 65531
				}
				l := c.Size(max, 0, 1, 2, 255, 256, 65531)
				v.T = append(v.T, Triplet{tag, EdgeValue(c, c.Blob(l, "any"))})
			}
		}
	}
	// a body that carries a concatenation header usually comes with the header indicator set; the part counters of
	// the PDU itself may say the same as the header, something else, or nothing (0/0)
	for _, f := range p.Fields {
		v := m.F[f.Name]
		if v == nil || f.Kind != KOctets || len(v.B) < 7 || v.B[1] != 0 && v.B[1] != 8 || !(v.B[0] == 5 && v.B[2] == 3 || v.B[0] == 6 && v.B[2] == 4) {
			continue
		}
		if u := m.F["TP_udhi"]; u != nil && c.Prob(2, 3) {
			u.U = 1
		}
		if t, n := m.F["Pk_total"], m.F["Pk_number"]; t != nil && n != nil {
			switch c.Intn(3) {
			case 0:
				t.U, n.U = 0, 0
			case 1:
				t.U, n.U = uint64(v.B[len(v.B[:v.B[0]+1])-2]), uint64(v.B[v.B[0]])
			}
		}
		break
	}
	if o.Twin > 0 {
		if o.Twin%2 == 1 {
			e164(m, o.Twin)
		}
		twinFields(m, o.Twin)
	}
	if o.Shape == 0 && !o.BodyNoNul && c.Prob(1, 10) {
		codedBody(c, m)
	}
	if o.Shape == 0 && c.Prob(1, 8) {
		coincide(c, m)
	}
	if o.Shape == 0 && !o.BodyNoNul && c.Prob(1, 10) {
		reportBody(c, m)
	}
	return m
}

// e164 makes the address triples of a PDU say the same thing in all three places: type of number 1 (international),
// numbering plan 1 (ISDN) and a number written the E.164 way, with its plus sign - or the alphanumeric pair 5/0 with
// a name. Independent generators produce such a triple once in tens of thousands of PDUs.
func e164(m *Msg, k int) {
	// the two time fields of a submit: the formats of the specification, the all-zero relative time among them
	for _, name := range []string{"schedule_delivery_time", "validity_period"} {
		if v := m.F[name]; v != nil && k%5 < 3 {
			v.B = []byte([]string{"000000000000000R", "000000000015000R", "991231235959000+", "000101000000000-", "", "000000010000000R"}[(k/5+len(name))%6])
		}
	}
	fs := m.PDU.Fields
	for i := 0; i+2 < len(fs); i++ {
		if !strings.HasSuffix(fs[i].Name, "addr_ton") || !strings.HasSuffix(fs[i+1].Name, "addr_npi") || fs[i+2].Kind != KCStr {
			continue
		}
		ton, npi, addr := m.F[fs[i].Name], m.F[fs[i+1].Name], m.F[fs[i+2].Name]
		if ton == nil || npi == nil || addr == nil {
			continue
		}
		switch (k / 2) % 3 {
		case 0:
			ton.U, npi.U, addr.B = 1, 1, []byte(fmt.Sprintf("+86138%08d", k*7919%100000000))
		case 1:
			ton.U, npi.U, addr.B = 5, 0, []byte([]string{"ALERT", "Bank24", "My-Shop"}[k%3])
		default:
			ton.U, npi.U, addr.B = 0, 0, []byte(fmt.Sprintf("+1%010d", int64(k)*104729%10000000000))
		}
		if len(addr.B) > fs[i+2].Width-1 {
			addr.B = addr.B[:fs[i+2].Width-1]
		}
	}
}

// twinFields gives two text-like slots of one PDU the same value - independent generators never do that, real
// traffic does it all the time (the number that pays is the number that receives, the source is the service id).
// A single-entry destination list counts as a slot. The value must fit the slot it is copied to.
func twinFields(m *Msg, k int) {
	type slot struct {
		get   func() []byte
		set   func([]byte)
		width int
	}
	var slots []slot
	for _, f := range m.PDU.Fields {
		f, v := f, m.F[f.Name]
		if v == nil {
			continue
		}
		switch f.Kind {
		case KStr:
			if v.Raw == nil {
				slots = append(slots, slot{func() []byte { return v.B }, func(b []byte) { v.B = b }, f.Width})
			}
		case KCStr:
			slots = append(slots, slot{func() []byte { return v.B }, func(b []byte) { v.B = b }, f.Width - 1})
		case KRep:
			if len(v.L) == 1 {
				slots = append(slots, slot{func() []byte { return v.L[0] }, func(b []byte) { v.L[0] = b }, f.Width})
			}
		}
	}
	if len(slots) < 2 {
		return
	}
	for try := 0; try < len(slots)*len(slots); try++ {
		ia, ib := (k+try)%len(slots), (k/len(slots)+try/len(slots)+1+k+try)%len(slots)
		a, b := slots[ia], slots[ib]
		src := a.get()
		if ia == ib || len(src) == 0 || len(src) > b.width || bytes.IndexByte(src, 0) >= 0 {
			continue
		}
		if string(b.get()) == string(src) {
			continue
		}
		b.set(append([]byte(nil), src...))
		return
	}
}

// codedBody makes the body what its data-coding field says: a short text in that coding (UTF-16BE for the UCS-2
// numbers of the protocols, octets as they are otherwise), with the things senders put around a text - a signature in
// full-width or ASCII brackets in front of it or behind it, a byte-order mark, a trailing line break.
func codedBody(c *core.Chooser, m *Msg) {
	var coding, body *Field
	for _, f := range m.PDU.Fields {
		switch {
		case f.Name == "Msg_Fmt" || f.Name == "MsgFormat" || f.Name == "MessageCoding" || f.Name == "data_coding":
			coding = f
		case f.Kind == KOctets && f.Ref != "":
			body = f
		}
	}
	if coding == nil || body == nil || m.F[coding.Name] == nil || m.F[body.Name] == nil {
		return
	}
	fmtv := []uint64{0, 3, 4, 8, 9, 15, 25, 24}[c.Intn(8)]
	core := []string{"hello", "\u4f60\u597d", "Your code is 1234", "\u9a8c\u8bc1\u7801 8841"}[c.Intn(4)]
	sign := []string{"\u3010\u7b7e\u540d\u3011", "[Sign]", "\u3010A\u3011", "[]", "\u3010\u3011"}[c.Intn(5)]
	var text string
	switch c.Intn(5) {
	case 0:
		text = sign + core
	case 1:
		text = core + sign
	case 2:
		text = sign + core + sign
	case 3:
		text = "\ufeff" + core
	default:
		text = core + "\r\n"
	}
	var b []byte
	if fmtv == 8 || fmtv == 9 || fmtv == 25 || fmtv == 24 {
		for _, r := range text {
			if r > 0xffff {
				continue
			}
			b = append(b, byte(r>>8), byte(r))
		}
	} else {
		b = []byte(text)
	}
	if len(b) > 140 {
		b = b[:140]
	}
	m.F[coding.Name].U = fmtv
	m.F[body.Name].B = b
	m.V(body.Ref).U = uint64(len(b))
	if u := m.F["TP_udhi"]; u != nil {
		u.U = 0
	}
}

// reportBody turns a deliver into a status report: the report flag is set and the body becomes a binary report of the
// CMPP kind (8-octet id, text slots of 7, 10, 10 and 21 or 32 octets, 4-octet sequence: 60 or 71 octets) whose text
// slots are padded canonically or carry junk after the NUL, or a receipt text. A codec that looks INTO such a body
// (and lays it out again) has something to look at.
func reportBody(c *core.Chooser, m *Msg) {
	var flag *Val
	var body *Field
	for _, f := range m.PDU.Fields {
		switch {
		case f.Kind == KU8 && (strings.EqualFold(f.Name, "Registered_Delivery") || f.Name == "IsReport"):
			flag = m.F[f.Name]
		case f.Kind == KOctets && m.PDU.Field(f.Ref) != nil && m.PDU.Field(f.Ref).IntBits() == 8:
			body = f
		}
	}
	if flag == nil || body == nil {
		return
	}
	flag.U = 1
	var b []byte
	if c.Prob(1, 4) {
		b = []byte("id:0123456789 sub:001 dlvrd:001 submit date:2401011200 done date:2401011201 stat:DELIVRD err:000 text:abc")
	} else {
		dest := []int{21, 32}[c.Intn(2)]
		b = c.Blob(8, "any")
		for _, w := range []int{7, 10, 10, dest} {
			slot := make([]byte, w)
			k := c.Intn(w + 1)
			copy(slot, c.Blob(k, "digits"))
			if k+1 < w && c.Bool() {
				copy(slot[k+1:], c.Blob(w-k-1, "any")) // junk after the NUL: accepted, not canonical
			}
			b = append(b, slot...)
		}
		b = append(b, c.Blob(4, "any")...)
	}
	m.F[body.Name].B = b
	m.V(body.Ref).U = uint64(len(b))
}

// coincide makes one octet of a text field equal to something it has no business to equal: a length or count of the
// same PDU (plus or minus a small offset), the low octet of the image length, a header magic, a small integer; the
// octet before it becomes a small integer half of the time. Layout heuristics keyed on such octets show up.
func coincide(c *core.Chooser, m *Msg) {
	var texts []*Val
	var nums []uint64
	for _, f := range m.PDU.Fields {
		v := m.F[f.Name]
		switch f.Kind {
		case KStr, KCStr:
			if len(v.B) >= 2 && v.Raw == nil {
				texts = append(texts, v)
			}
		case KU8, KU16, KU32:
			nums = append(nums, v.U)
		case KOctets:
			nums = append(nums, uint64(len(v.B)))
		}
	}
	if len(texts) == 0 {
		return
	}
	if img, _ := Build(m); len(img) > 0 {
		nums = append(nums, uint64(len(img)), uint64(len(img)-m.PDU.Proto.HeaderLen()))
	}
	nums = append(nums, 1, 3, 5, 6)
	v := texts[c.Intn(len(texts))]
	pos := c.Intn(len(v.B))
	if c.Prob(1, 2) {
		pos = len(v.B) - 1 - c.Intn(min(len(v.B), 12)) // towards the end of long values: deep inside the slot
	}
	x := byte(int(nums[c.Intn(len(nums))]) + c.Intn(81) - 40)
	if x == 0 {
		x = 1
	}
	v.B[pos] = x
	if pos > 0 && c.Bool() {
		v.B[pos-1] = byte(1 + c.Intn(2))
	}
}
