package scen

import (
	"bytes"
	"encoding/binary"
	"encoding/hex"
	"errors"
	"fmt"
	"io"
	"reflect"
	"strings"
	"time"

	protocol "github.com/hujm2023/go-sms-protocol"
	"github.com/hujm2023/go-sms-protocol/cmpp"
	"github.com/hujm2023/go-sms-protocol/cmpp/cmpp20"
	"github.com/hujm2023/go-sms-protocol/packet"
	"github.com/hujm2023/go-sms-protocol/sgip"
	"github.com/hujm2023/go-sms-protocol/sgip/sgip12"
	"github.com/hujm2023/go-sms-protocol/smgp"
	"github.com/hujm2023/go-sms-protocol/smgp/smgp30"
	"github.com/hujm2023/go-sms-protocol/smpp"

	"verif/sim/core"
	"verif/sim/simnet"
	"verif/sim/spec"
)

// interop — C01 and C02. A sender node and a receiver node exchange PDUs of
// every type over a byte-preserving link and the real frame extractor.
//
//	leg A: the library encodes; the stream is framed and decoded by the
//	       library (C01: conservation + field-wise round trip) and, from the
//	       same octets, by the independent model peer (C02: layout).
//	leg B: the model peer assembles specification-conformant images; the
//	       library frames, dispatches and decodes them (C02: decode side).
//	misfit: a value longer than its fixed-width slot must make IEncode fail (C01).

func init() {
	Register(&Scenario{
		Pools: true,
		Name:  "interop",
		Props: []string{"C01", "C02"},
		Plan: func(prop, tier string) []Batch {
			if tier == "thorough" {
				bs := []Batch{{Mode: "seeded", Count: 4000000}, {Mode: "slot-sweep-wide", Count: slotSweepCount(true), Exhaustive: true}}
				if prop == "C02" {
					bs = append(bs, Batch{Mode: "count-sweep", Count: 4 * 256 * 256, Exhaustive: true})
				}
				return bs
			}
			bs := []Batch{{Mode: "seeded", Count: 60000}, {Mode: "slot-sweep", Count: slotSweepCount(false), Exhaustive: true}}
			if prop == "C02" {
				// destination count 0..255 x body length on a coarse grid, all four submit types
				bs = append(bs, Batch{Mode: "count-sweep-coarse", Count: 4 * 256 * 8, Exhaustive: true})
			}
			return bs
		},
		Run:  runInterop,
		Real: []string{"IEncode / IDecode of all 57 PDU types", "codec.CMPPCodec / codec.SMPPCodec (Decode and DecodeBlocked)", "per-protocol dispatchers"},
		Stub: []string{"model peer (table-driven encoder/decoder/framer from /verif/spec/layouts.spec)", "field-value generator", "byte-preserving link with seeded cuts and coalescing", "SimConn"},
		Rule: "2..8 PDUs per stream, types and well-formed field values drawn from the choice tape (boundary-biased: slot widths, counts 0/1/12/13/99/100/255, body lengths 0/140/159/160/254/255, 64 KiB SGIP bodies, optional values up to 65531), sent back to back over a link that cuts and coalesces; non-trivial = a cut inside a frame or >= 2 frames in one chunk occurred; distinct = distinct event-log hash. Mode count-sweep enumerates destination count 0..255 x body length for the four submit types.",
	})
}

var submitTypes = []string{"cmpp20.PduSubmit", "cmpp30.Submit", "sgip12.Submit", "smgp30.Submit"}

func siteOf(pd *spec.PDU) string { return pd.Site() }

func binClass(b []byte) string {
	if len(b) == 0 {
		return "plain"
	}
	if b[len(b)-1] == 0 {
		return "trailing-nul"
	}
	if bytes.IndexByte(b, 0) >= 0 {
		return "interior-nul"
	}
	return "plain"
}

// classOfField qualifies a differing struct field for the finding key: fixed
// binary slots are classified by where their 0x00 octets are, because the
// library reads them as C-strings.
func classOfField(pd *spec.PDU, m *spec.Msg, goField string) string {
	for _, f := range pd.Fields {
		if f.GoField == goField && f.Kind == spec.KBin {
			if hexDec[pd.Site()+"."+goField] && !hexEnc[pd.Site()+"."+goField] {
				return "/raw-in-hex-out"
			}
			return "/" + binClass(m.F[f.Name].B)
		}
	}
	return ""
}

type sent struct {
	msg      *spec.Msg
	pd       *spec.PDU
	pdu      protocol.PDU // struct handed to IEncode
	expected any          // deep copy taken before IEncode, with the documented normalisation applied
	bytes    []byte       // snapshot of the encoder's output, taken at return
	live     []byte       // the slice the encoder returned (must still hold those octets after later encodes)
}

func genOptFor(c *core.Chooser) spec.GenOpt {
	o := spec.GenOpt{MaxDests: 3, MaxBody32: 300}
	switch c.Pick(5, 2, 1) {
	case 1:
		o.MaxDests = 100
	case 2:
		o.MaxDests = 255
	}
	if c.Prob(1, 10) {
		o.MaxBody32 = 70000
	}
	o.BigTLV = c.Prob(1, 6)
	o.BinNoNul = c.Prob(1, 2)
	return o
}

// gatewayLogsIn: before a gateway submits anything it has logged in - with the library's own constructors. Whatever
// they leave behind in the process (an account remembered "as the SP id", a cached digest) must not show up in the
// PDUs encoded afterwards. Every run of interop and relay starts with it; the first run of a worker process is the
// first use of those constructors in that process.
func gatewayLogsIn(r *core.Run) {
	acct := fmt.Sprintf("9%05d", r.Cfg.Index%100000)
	r.Call("login constructors", func() {
		_ = cmpp20.NewConnect(acct, "secret", 1)
		_ = smgp30.NewLogin(acct, "secret", 1)
		_ = sgip12.NewBind(acct, "secret", 1, 1)
		_ = cmpp.GenConnectAuth(acct, "secret", "0101000000")
	})
}

func runInterop(r *core.Run) {
	gatewayLogsIn(r)
	c := r.C
	sp := Spec()
	if strings.HasPrefix(r.Cfg.Mode, "count-sweep") {
		runCountSweep(r)
		return
	}
	if strings.HasPrefix(r.Cfg.Mode, "slot-sweep") {
		runSlotSweep(r)
		return
	}
	proto := sp.Protos[c.Intn(len(sp.Protos))]
	leg := c.Pick(5, 4, 2) // 0 = A (library encodes), 1 = B (model encodes), 2 = misfit
	n := 2 + c.Size(6, 1)
	opt := genOptFor(c)
	r.Event("interop proto=%s leg=%d n=%d", proto.Name, leg, n)
	switch leg {
	case 0:
		interopLegA(r, proto, n, opt)
	case 1:
		interopLegB(r, proto, n, opt)
	default:
		interopMisfit(r, proto, opt)
		// a refused encode must leave nothing behind: well-formed PDUs sent right after it still round-trip
		if c.Bool() {
			r.Probe("valid_after_refused_encode")
			interopLegA(r, proto, 1+c.Intn(3), opt)
		}
	}
}

// applyDocumentedNormalisation: the CMPP 2.0 submit encoder defaults an
// all-zero part counter to 1/1 (allowed once by the properties).
func applyDocumentedNormalisation(m *spec.Msg) {
	if m.PDU.Site() == "cmpp20.PduSubmit" {
		if m.V("Pk_total").U == 0 && m.V("Pk_number").U == 0 {
			m.V("Pk_total").U, m.V("Pk_number").U = 1, 1
		}
	}
}

func interopLegA(r *core.Run, proto *spec.Proto, n int, opt spec.GenOpt) {
	c := r.C
	var out []sent
	var stream []byte
	var ends []int
	for i := 0; i < n; i++ {
		pd := proto.PDUs[c.Intn(len(proto.PDUs))]
		opt := opt
		opt.Shape = c.Pick(10, 1, 1) // also the smallest and the largest image of every type
		if (i+int(r.Cfg.Index))%6 == 5 {
			opt.Twin = 1 + int(r.Cfg.Index/6)%977 // two fields of this PDU carry the same value
		}
		m := spec.Gen(c, pd, opt)
		pdu := ToGo(m)
		fillExtras(c, pdu, pd)
		// a stale or caller-supplied header length must not reach the wire: the prefix is always the real byte count
		if c.Prob(1, 3) {
			h := reflect.ValueOf(pdu).Elem().FieldByName("Header")
			for _, n := range []string{"TotalLength", "Length"} {
				if f := h.FieldByName(n); f.IsValid() {
					f.SetUint(uint64([]uint32{1, 12, 157, 0xffffffff, uint32(c.Intn(5000))}[c.Intn(5)]))
					r.Probe("stale_header_length")
				}
			}
		}
		applyDocumentedNormalisation(m)
		expected := deepCopy(ToGoLike(pdu, m))
		var b []byte
		var err error
		site := pd.Site()
		if (i+int(r.Cfg.Index))%4 == 2 {
			// the sender logs what it is about to send: rendering is an observer
			if p := r.Call(site+".String", func() { _ = pdu.String() }); p != nil {
				r.Fail("C01", "panic", site, "String/"+p.Kind, "String() of a well-formed PDU panicked: %s at %s", p.Value, p.Frame)
				return
			}
			r.Probe("logged_before_encode")
		}
		if p := r.Call(site+".IEncode", func() { b, err = pdu.IEncode() }); p != nil {
			r.Fail("C01", "panic", site, "IEncode/"+p.Kind, "IEncode panicked: %s at %s", p.Value, p.Frame)
			return
		}
		if err != nil {
			r.Fail("C01", "encode-error", site, "well-formed", "IEncode refused a well-formed assignment: %v; %s", err, short(spec.Canon(m), keysOf(m)))
			return
		}
		r.Event("send %s %d octets", site, len(b))
		s := sent{msg: m, pd: pd, pdu: pdu, expected: expected, bytes: append([]byte(nil), b...), live: b}
		out = append(out, s)
		stream = append(stream, b...)
		ends = append(ends, len(stream))
		// length prefix = real byte count (what lets the peer find the next PDU)
		if l, _, _, ok := headerBits(proto, b); !ok || int(l) != len(b) {
			for _, prop := range []string{"C01", "C02"} {
				r.Fail(prop, "length-prefix", site, "encode", "length prefix %d but %d octets were produced (dest count %d, body %d)", l, len(b), destCount(m), bodyLen(m))
			}
			// the stream is desynchronised from here on: the peers below would see garbage
			checkModelPeerDesync(r, proto, stream, out)
			return
		}
	}
	// --- the octets returned by earlier IEncode calls are the caller's: later encodes must not have changed them
	for i, s := range out {
		if !bytes.Equal(s.live, s.bytes) {
			r.Fail("C01", "encoded-bytes-changed", s.pd.Site(), "later-encode", "the octets returned by IEncode for PDU %d of %d changed while later PDUs were encoded", i+1, len(out))
			return
		}
	}
	// --- the library receives its own stream through the real framer
	link := newByteLink(r, stream, ends)
	frames, how := recvFrames(r, proto.Name, link, len(out))
	if how != "" || len(frames) != len(out) {
		r.Fail("C01", "stream-conservation", proto.Name, "frames", "sent %d PDUs, framer returned %d (%s)", len(out), len(frames), how)
		return
	}
	for i, s := range out {
		site := s.pd.Site()
		if !bytes.Equal(frames[i], s.bytes) {
			r.Fail("C01", "stream-conservation", site, "octets", "frame %d differs from the octets sent", i)
			return
		}
		fresh := ctor[site]()
		var err error
		if (i+int(r.Cfg.Index))%2 == 1 {
			// a gateway does not know the type in advance: it asks the package's dispatcher
			var dp protocol.PDU
			if p := r.Call("Decode"+proto.Name, func() { dp, err = dispatcher[proto.Name](frames[i]) }); p != nil {
				r.Fail("C01", "panic", site, "dispatch/"+p.Kind, "the dispatcher panicked on the package's own encoding: %s at %s", p.Value, p.Frame)
				continue
			}
			if err != nil || dp == nil {
				r.Fail("C01", "decode-error", site, "own-encoding-dispatched", "the dispatcher refused the encoder's own output: %v", err)
				continue
			}
			if typeSite(dp) != site {
				r.Fail("C01", "decode-error", site, "dispatched-as-other-type", "the dispatcher decoded the encoder's own output as %s", typeSite(dp))
				continue
			}
			fresh = dp
			r.Probe("roundtrip_via_dispatcher")
		} else if p := r.Call(site+".IDecode", func() { err = fresh.IDecode(frames[i]) }); p != nil {
			r.Fail("C01", "panic", site, "IDecode/"+p.Kind, "IDecode of its own encoding panicked: %s at %s", p.Value, p.Frame)
			continue
		}
		if err != nil {
			r.Fail("C01", "decode-error", site, "own-encoding", "IDecode refused the encoder's own output: %v", err)
			continue
		}
		if (i+int(r.Cfg.Index))%4 == 3 {
			// the receiver logs the PDU before it reads its fields
			if p := r.Call(site+".String", func() { _ = fresh.String() }); p != nil {
				r.Fail("C01", "panic", site, "String/"+p.Kind, "String() of a decoded PDU panicked: %s at %s", p.Value, p.Frame)
				continue
			}
			r.Probe("logged_after_decode")
		}
		for _, path := range goDiff(s.expected, fresh) {
			cls := classOfField(s.pd, s.msg, path)
			if cls == "/raw-in-hex-out" && showField(fresh, path) != fmt.Sprintf("%q", hex.EncodeToString([]byte(rawString(s.expected, path)))) {
				cls = "/hex-differs" // not merely the known raw-vs-hex presentation: the ten octets themselves changed
			}
			if cls == "/trailing-nul" && rawString(fresh, path) != strings.TrimRight(rawString(s.expected, path), "\x00") {
				cls = "/trailing-nul-differs" // more than the known loss of the trailing zero octets
			}
			r.Fail("C01", "roundtrip", site, "field="+path+cls, "field %s: sent %s, decoded %s", path, showField(s.expected, path), showField(fresh, path))
		}
		got := FromGo(fresh, s.pd, false)
		if int(got.DeclaredLen) != len(s.bytes) {
			r.Fail("C01", "header-length", site, "decoded", "decoded header length %d, real byte count %d", got.DeclaredLen, len(s.bytes))
		}
		// --- the model peer parses the same octets (C02, encode side)
		checkLayout(r, s)
		// the receiver owns the decoded value: it flags it (one more optional parameter), grows and overwrites
		// its octets; the PDUs still to come must round-trip all the same
		ownerAdds(fresh)
		fillSpare(fresh)
		scribbleBytes(fresh)
	}
}

// ToGoLike returns pdu itself; kept as a seam so that the expected value is
// always a deep copy of what was handed to the encoder.
func ToGoLike(pdu protocol.PDU, m *spec.Msg) any {
	// apply the documented normalisation to the expectation only
	if m.PDU.Site() == "cmpp20.PduSubmit" {
		cp := deepCopy(pdu)
		v := reflect.ValueOf(cp).Elem()
		if v.FieldByName("PkTotal").Uint() == 0 && v.FieldByName("PkNumber").Uint() == 0 {
			v.FieldByName("PkTotal").SetUint(1)
			v.FieldByName("PkNumber").SetUint(1)
		}
		return cp
	}
	return pdu
}

func keysOf(m *spec.Msg) []string {
	var ks []string
	for _, f := range m.PDU.Fields {
		ks = append(ks, f.Name)
	}
	return ks
}

func destCount(m *spec.Msg) int {
	for _, f := range m.PDU.Fields {
		if f.Kind == spec.KRep {
			return len(m.F[f.Name].L)
		}
	}
	return -1
}

func bodyLen(m *spec.Msg) int {
	for _, f := range m.PDU.Fields {
		if f.Kind == spec.KOctets {
			return len(m.F[f.Name].B)
		}
	}
	return -1
}

func rawString(p any, path string) string {
	v := reflect.ValueOf(p).Elem()
	for _, part := range strings.Split(path, ".") {
		if v.Kind() == reflect.Struct {
			v = v.FieldByName(part)
		}
	}
	if v.IsValid() && v.Kind() == reflect.String {
		return v.String()
	}
	return ""
}

func showField(p any, path string) string {
	v := reflect.ValueOf(p).Elem()
	for _, part := range strings.Split(path, ".") {
		if v.Kind() == reflect.Struct {
			v = v.FieldByName(part)
		}
	}
	if !v.IsValid() {
		return "?"
	}
	s := ""
	switch v.Kind() {
	case reflect.String:
		s = fmt.Sprintf("%q", v.String())
	default:
		if v.CanInterface() {
			s = fmt.Sprintf("%v", v.Interface())
		} else {
			s = fmt.Sprintf("%v", v)
		}
	}
	if len(s) > 120 {
		s = s[:120] + "…"
	}
	return s
}

// checkLayout: the model peer decodes the library's octets by the
// specification tables; every octet must be accounted for.
func checkLayout(r *core.Run, s sent) {
	site := s.pd.Site()
	got, err := spec.Parse(s.pd, s.bytes)
	if err != nil {
		r.Fail("C02", "layout", site, "short", "the model peer runs out of octets parsing the library's %d-octet image (%v)", len(s.bytes), err)
		return
	}
	if len(got.Trailing) > 0 {
		r.Fail("C02", "layout", site, "trailing", "%d octets beyond the fields the specification (%s) defines: %x", len(got.Trailing), s.pd.Section, got.Trailing[:min(len(got.Trailing), 16)])
	}
	for _, name := range spec.Diff(s.msg, got) {
		r.Fail("C02", "layout", site, "field="+name, "specification field %s: sender value %s, on the wire %s", name, spec.Canon(s.msg)[name], spec.Canon(got)[name])
	}
	// octet-for-octet against the reference encoder (optional tail compared as a set above)
	ref, mandEnd := spec.Build(s.msg)
	n := min(mandEnd, len(s.bytes))
	if len(s.bytes) >= mandEnd && !bytes.Equal(ref[4:mandEnd], s.bytes[4:n]) && len(spec.Diff(s.msg, got)) == 0 {
		off := 4
		for off < n && ref[off] == s.bytes[off] {
			off++
		}
		r.Fail("C02", "layout", site, "octets", "mandatory part differs from the reference image at offset %d (padding / byte order): ref %x lib %x", off, ref[off:min(off+8, len(ref))], s.bytes[off:min(off+8, len(s.bytes))])
	}
}

// checkModelPeerDesync demonstrates what a peer built from the specification
// sees once a length prefix is wrong: it cuts the stream where the prefix
// says and misparses what follows.
func checkModelPeerDesync(r *core.Run, proto *spec.Proto, stream []byte, out []sent) {
	rest := stream
	k := 0
	for len(rest) > 0 && k < len(out) {
		f, rr, ok, err := spec.Frame(rest)
		if !ok || err != nil {
			break
		}
		if !bytes.Equal(f, out[k].bytes) {
			r.Event("model peer: frame %d is %d octets, %d were sent: stream desynchronised", k, len(f), len(out[k].bytes))
			r.Probe("peer_desync_observed")
			return
		}
		rest = rr
		k++
	}
}

func interopLegB(r *core.Run, proto *spec.Proto, n int, opt spec.GenOpt) {
	c := r.C
	type img struct {
		m  *spec.Msg
		pd *spec.PDU
		b  []byte
	}
	var out []img
	var stream []byte
	var ends []int
	for i := 0; i < n; i++ {
		pd := proto.PDUs[c.Intn(len(proto.PDUs))]
		opt := opt
		opt.Shape = c.Pick(10, 1, 1)
		m := spec.Gen(c, pd, opt)
		b, _ := spec.Build(m)
		out = append(out, img{m, pd, b})
		stream = append(stream, b...)
		ends = append(ends, len(stream))
		r.Event("model peer sends %s %d octets", pd.Site(), len(b))
	}
	link := newByteLink(r, stream, ends)
	frames, how := recvFrames(r, proto.Name, link, len(out))
	if how != "" || len(frames) != len(out) {
		r.Event("framer trouble on conformant images: %s (%d/%d)", how, len(frames), len(out))
		r.Fail("C02", "decode", proto.Name, "framing", "sent %d conformant images, framer returned %d (%s)", len(out), len(frames), how)
		return
	}
	reused := map[string]protocol.PDU{}
	for i, s := range out {
		site := s.pd.Site()
		if !bytes.Equal(frames[i], s.b) {
			r.Fail("C02", "decode", site, "framing", "frame %d differs from the image sent", i)
			return
		}
		fresh := ctor[site]()
		// a receiver may decode into the same PDU value again and again: what an earlier image left
		// behind must not show up among the values of this one
		if prev, ok := reused[site]; ok && c.Bool() {
			fresh = prev
			r.Probe("decode_into_reused_struct")
		}
		reused[site] = fresh
		var err error
		// "frames, dispatches and decodes": half of the images take the way through the per-protocol dispatcher
		viaDispatcher := c.Bool()
		if viaDispatcher {
			var dp protocol.PDU
			if p := r.Call("Decode"+proto.Name, func() { dp, err = dispatcher[proto.Name](frames[i]) }); p != nil {
				r.Fail("C02", "panic", site, "dispatcher/"+p.Kind, "the dispatcher panicked on a conformant image: %s at %s", p.Value, p.Frame)
				continue
			}
			switch {
			case err == nil && dp != nil && typeSite(dp) == site:
				fresh = dp
				reused[site] = fresh
			case errors.Is(err, protocol.ErrUnsupportedPacket) || (err == nil && dp != nil):
				viaDispatcher = false // which types a dispatcher knows, and as what, is C10's question
			default:
				r.Fail("C02", "decode", site, "refused-by-dispatcher", "the dispatcher refused a specification-conformant image (%s, %d octets): %v", s.pd.Section, len(s.b), err)
				continue
			}
		}
		if !viaDispatcher {
			if p := r.Call(site+".IDecode", func() { err = fresh.IDecode(frames[i]) }); p != nil {
				r.Fail("C02", "panic", site, "IDecode/"+p.Kind, "IDecode of a conformant image panicked: %s at %s", p.Value, p.Frame)
				continue
			}
		}
		if err != nil {
			r.Fail("C02", "decode", site, "refused", "IDecode refused a specification-conformant image (%s, %d octets): %v", s.pd.Section, len(s.b), err)
			continue
		}
		if (i+int(r.Cfg.Index))%4 == 1 {
			// a decoded PDU that is logged before its fields are read still carries the values of the image
			if p := r.Call(site+".String", func() { _ = fresh.String() }); p != nil {
				r.Fail("C02", "panic", site, "String/"+p.Kind, "String() of a PDU decoded from a conformant image panicked: %s at %s", p.Value, p.Frame)
				continue
			}
			r.Probe("logged_after_decode")
		}
		got := FromGo(fresh, s.pd, true)
		got.CmdID = s.m.CmdID // compared below through the raw header
		for _, name := range spec.Diff(s.m, got) {
			cls := ""
			if f := s.pd.Field(name); f != nil && f.Kind == spec.KBin {
				cls = "/" + binClass(s.m.F[name].B)
				if cls == "/trailing-nul" && !bytes.Equal(got.F[name].B, bytes.TrimRight(s.m.F[name].B, "\x00")) {
					cls = "/trailing-nul-differs"
				}
			}
			r.Fail("C02", "decode", site, "field="+name+cls, "specification field %s: image carries %s, decoded %s", name, spec.Canon(s.m)[name], spec.Canon(got)[name])
		}
		if int(got.DeclaredLen) != len(s.b) {
			r.Fail("C02", "decode", site, "header-length", "decoded header length %d, image has %d octets", got.DeclaredLen, len(s.b))
		}
		hdrCmd := FromGo(fresh, s.pd, true).CmdID
		if hdrCmd != s.m.CmdID {
			r.Fail("C02", "decode", site, "field=@cmd", "command id in image %#x, decoded header %#x", s.m.CmdID, hdrCmd)
		}
		if c.Prob(1, 3) {
			headerViaReader(r, proto, s.b)
		}
		if c.Prob(1, 3) {
			headerHelpers(r, proto, s.b)
		}
		if c.Bool() {
			ownerAdds(fresh)
			fillSpare(fresh)
			scribbleBytes(fresh)
		}
	}
}

// headerHelpers: the exported header constructors, writers and readers of the protocol packages (a caller that frames
// by hand uses them) must produce and read the very header octets the specification lays out: the image's own.
func headerHelpers(r *core.Run, proto *spec.Proto, img []byte) {
	hl := proto.HeaderLen()
	if len(img) < hl {
		return
	}
	w := func(i int) uint32 { return binary.BigEndian.Uint32(img[4*i:]) }
	var viaWriter, viaBytes []byte
	var back [5]uint32
	var nback int
	var err error
	name := proto.Name
	p := r.Call(name+".header-helpers", func() {
		pw := packet.NewPacketWriter()
		defer pw.Release()
		switch proto.Name {
		case "smpp34":
			h := smpp.NewPduHeader(w(0), smpp.CMDId(w(1)), smpp.CMDStatus(w(2)), w(3))
			smpp.WriteHeader(*h, pw)
			viaWriter, err = pw.Bytes()
			viaWriter = append([]byte(nil), viaWriter...)
			rd := packet.NewPacketReader(img)
			defer rd.Release()
			h2 := smpp.ReadHeader(rd)
			h3, _ := smpp.PeekHeader(img)
			if h2 != h3 {
				h2.Length ^= 1 // reported below as a read-back mismatch
			}
			back, nback = [5]uint32{h2.Length, uint32(h2.ID), uint32(h2.Status), h2.Sequence}, 4
		case "cmpp20", "cmpp30":
			h := cmpp.NewHeader(w(0), cmpp.CommandID(w(1)), w(2))
			cmpp.WriteHeader(h, pw)
			viaWriter, err = pw.Bytes()
			viaWriter = append([]byte(nil), viaWriter...)
			viaBytes = h.Bytes()
			rd := packet.NewPacketReader(img)
			defer rd.Release()
			h2 := cmpp.ReadHeader(rd)
			h3, _ := cmpp.PeekHeader(img)
			h4, _ := cmpp.NewHeaderFromBytes(img)
			if h2 != h3 || h2 != h4 {
				h2.TotalLength ^= 1
			}
			back, nback = [5]uint32{h2.TotalLength, uint32(h2.CommandID), h2.SequenceID}, 3
		case "smgp30":
			h := smgp.NewHeader(w(0), smgp.CommandID(w(1)), w(2))
			smgp.WriteHeader(h, pw)
			viaWriter, err = pw.Bytes()
			viaWriter = append([]byte(nil), viaWriter...)
			viaBytes = h.Bytes()
			rd := packet.NewPacketReader(img)
			defer rd.Release()
			h2 := smgp.ReadHeader(rd)
			h3, _ := smgp.PeekHeader(img)
			h4, _ := smgp.NewHeaderFromBytes(img)
			if h2 != h3 || h2 != h4 {
				h2.TotalLength ^= 1
			}
			back, nback = [5]uint32{h2.TotalLength, uint32(h2.CommandID), h2.SequenceID}, 3
		case "sgip12":
			h := sgip.NewHeader(w(0), sgip.CommandID(w(1)), w(2), w(4))
			// the constructor stamps the second word from the clock: mmddhhmmss as a decimal number
			if ts := h.Sequence[1]; ts/100000000 < 1 || ts/100000000 > 12 || ts/1000000%100 < 1 || ts/1000000%100 > 31 || ts/10000%100 > 23 || ts/100%100 > 59 || ts%100 > 59 {
				err = fmt.Errorf("sgip.NewHeader stamped %d, which is no mmddhhmmss", ts)
			}
			// the exported converter behind that stamp, at an instant derived from the image (any hour, any month, in
			// any zone: the wall-clock fields of the instant as given are what goes on the wire)
			{
				zone := time.FixedZone("sim", int(int32(w(2)%97200))-43200)
				at := time.Unix(1704067200+int64(w(3)%31622400), 0).In(zone) // somewhere in the leap year 2024
				want := uint32(int(at.Month())*100000000 + at.Day()*1000000 + at.Hour()*10000 + at.Minute()*100 + at.Second())
				if got := sgip.Timestamp(at); got != want && err == nil {
					err = fmt.Errorf("sgip.Timestamp(%s) = %010d, mmddhhmmss of that instant is %010d", at.Format("2006-01-02 15:04:05 -0700"), got, want)
				}
			}
			h.Sequence[1] = w(3)
			pw.WriteUint32(h.TotalLength)
			sgip.WriteHeaderNoLength(h, pw)
			var e2 error
			viaWriter, e2 = pw.Bytes()
			if err == nil {
				err = e2
			}
			viaWriter = append([]byte(nil), viaWriter...)
			rd := packet.NewPacketReader(img)
			defer rd.Release()
			h2 := sgip.ReadHeader(rd)
			h3, _ := sgip.PeekHeader(img)
			if h2 != h3 {
				h2.TotalLength ^= 1
			}
			back, nback = [5]uint32{h2.TotalLength, uint32(h2.CommandID), h2.Sequence[0], h2.Sequence[1], h2.Sequence[2]}, 5
		}
	})
	if p != nil {
		r.Fail("C02", "panic", p.Frame, p.Kind, "header helpers of %s: %s", name, p.Value)
		return
	}
	r.Probe("header_helpers")
	if err != nil {
		r.Fail("C02", "layout", name+".header-helpers", "error", "writing a header with the package's helpers: %v", err)
		return
	}
	if !bytes.Equal(viaWriter, img[:hl]) {
		r.Fail("C02", "layout", name+".WriteHeader", "octets", "header written by the helpers % x, the image carries % x", viaWriter, img[:hl])
	}
	if viaBytes != nil && !bytes.Equal(viaBytes, img[:hl]) {
		r.Fail("C02", "layout", name+".Header.Bytes", "octets", "Header.Bytes() % x, the image carries % x", viaBytes, img[:hl])
	}
	for i := 0; i < nback; i++ {
		if back[i] != w(i) {
			r.Fail("C02", "decode", name+".ReadHeader", "header-words", "header word %d read back as %#x (or the readers disagree among themselves), the image carries %#x", i, back[i], w(i))
			break
		}
	}
}

// headerViaReader: the header decoders that take an io.Reader get the image through a connection that delivers it in
// seeded pieces (short reads, zero-length reads, the last octets together with EOF); the three header words must come out.
func headerViaReader(r *core.Run, proto *spec.Proto, img []byte) {
	c := r.C
	_, wantCmd, wantSeq, ok := headerBits(proto, img)
	if !ok {
		return
	}
	mk := func() *simnet.SimConn {
		conn := simnet.NewSimConn(simnet.Compact, 64, nil)
		conn.Arrive(img)
		conn.Fail(io.EOF)
		conn.ShortRead = func(avail, want int) int { return 1 + c.Intn(min(avail, want)) }
		zero := false
		conn.ZeroRead = func() bool {
			if !zero && c.Prob(1, 5) {
				zero = true
				return true
			}
			zero = false
			return false
		}
		conn.DataErr = c.Bool()
		return conn
	}
	var tl, cmd, seq uint32
	var err error
	name := ""
	switch proto.Name {
	case "cmpp20", "cmpp30":
		name = "cmpp.NewHeaderFromReader"
		if p := r.Call(name, func() {
			var h cmpp.Header
			h, err = cmpp.NewHeaderFromReader(mk())
			tl, cmd, seq = h.TotalLength, uint32(h.CommandID), h.SequenceID
		}); p != nil {
			r.Fail("C02", "panic", name, p.Kind, "%s: %s", name, p.Value)
			return
		}
	case "smgp30":
		name = "smgp.NewHeaderFromReader"
		if p := r.Call(name, func() {
			var h smgp.Header
			h, err = smgp.NewHeaderFromReader(mk())
			tl, cmd, seq = h.TotalLength, uint32(h.CommandID), h.SequenceID
		}); p != nil {
			r.Fail("C02", "panic", name, p.Kind, "%s: %s", name, p.Value)
			return
		}
	default:
		return
	}
	r.Probe("header_via_chunked_reader")
	if err != nil {
		r.Fail("C02", "decode", name, "refused", "a complete header delivered in pieces was refused: %v", err)
		return
	}
	if int(tl) != len(img) || cmd != wantCmd || seq != wantSeq[0] {
		r.Fail("C02", "decode", name, "header-words", "header delivered in pieces decoded as length %d command %#x sequence %d; the image carries %d, %#x, %d", tl, cmd, seq, len(img), wantCmd, wantSeq[0])
	}
}

// interopMisfit: one fixed-width value is made longer than its slot; encoding
// must fail with an error and emit nothing.
// declaredLengthMisfit: the body of a message travels in a slot whose width is the length field in front of it. A
// body that is longer than the length the caller declared (down to a declared length of 0) does not fit that slot.
// Which encoders take the declared length as the slot is the library's design (the others derive the length from
// the body); for those that do, the misfit must be refused like any other.
var declaredLengthSlot = map[string]bool{"cmpp30.Submit": true, "cmpp30.Deliver": true, "smgp30.Submit": true, "smgp30.Deliver": true, "sgip12.Submit": true, "sgip12.Deliver": true}

func declaredLengthMisfit(r *core.Run, proto *spec.Proto, opt spec.GenOpt) bool {
	var cands []*spec.PDU
	for _, pd := range proto.PDUs {
		if declaredLengthSlot[pd.Site()] {
			cands = append(cands, pd)
		}
	}
	if len(cands) == 0 {
		return false
	}
	pd := cands[int(r.Cfg.Index/5)%len(cands)]
	m := spec.Gen(r.C, pd, opt)
	for _, f := range pd.Fields {
		if f.Kind != spec.KOctets || f.Ref == "" {
			continue
		}
		v := m.F[f.Name]
		if len(v.B) == 0 {
			v.B = []byte{byte(r.Cfg.Index)}
		}
		declared := []int{0, len(v.B) - 1, len(v.B) / 2}[int(r.Cfg.Index/7)%3]
		m.V(f.Ref).U = uint64(declared)
		site := pd.Site()
		r.Fault("misfit_value")
		pdu := ToGo(m)
		var b []byte
		var err error
		if p := r.Call(site+".IEncode", func() { b, err = pdu.IEncode() }); p != nil {
			r.Fail("C01", "panic", site, "IEncode-misfit/"+p.Kind, "IEncode panicked on a body of %d octets declared as %d: %s at %s", len(v.B), declared, p.Value, p.Frame)
			return true
		}
		if err == nil {
			r.Fail("C01", "misfit-accepted", site, "field="+f.GoField+"/declared-length", "%s holds %d octets, the length field in front of it says %d: IEncode returned %d octets and no error", f.GoField, len(v.B), declared, len(b))
		}
		return true
	}
	return false
}

func interopMisfit(r *core.Run, proto *spec.Proto, opt spec.GenOpt) {
	c := r.C
	if r.Cfg.Index%5 == 4 && declaredLengthMisfit(r, proto, opt) {
		return
	}
	// pick a PDU type that has a fixed-width slot
	var cands []*spec.PDU
	for _, pd := range proto.PDUs {
		for _, f := range pd.Fields {
			if f.Kind == spec.KStr || f.Kind == spec.KBin || f.Kind == spec.KRep {
				cands = append(cands, pd)
				break
			}
		}
	}
	if len(cands) == 0 {
		r.Event("no fixed-width slot in %s", proto.Name)
		return
	}
	pd := cands[c.Intn(len(cands))]
	m := spec.Gen(c, pd, opt)
	var slots []*spec.Field
	for _, f := range pd.Fields {
		if f.Kind == spec.KStr || f.Kind == spec.KBin {
			slots = append(slots, f)
		}
		if f.Kind == spec.KRep && len(m.F[f.Name].L) > 0 {
			slots = append(slots, f)
		}
	}
	if len(slots) == 0 {
		return
	}
	f := slots[c.Intn(len(slots))]
	extra := 1 + c.Size(40, 1)
	// what does not fit need not be text: octets of one class (all 0xff, only UTF-8 continuation octets, one octet
	// repeated) must be refused just as politely
	alphabet := "print"
	if r.Cfg.Index%3 == 0 {
		alphabet = "nonul"
	}
	long := c.Blob(f.Width+extra, alphabet)
	site := pd.Site()
	if f.Kind == spec.KRep {
		l := m.F[f.Name].L
		l[c.Intn(len(l))] = long
	} else {
		m.F[f.Name].B = long
		if hexEnc[site+"."+f.GoField] {
			// the encoder takes hex digits here: 2*(width+extra) digits decode to too many octets
			m.F[f.Name].B = c.Blob(f.Width+extra, "any")
		}
	}
	r.Fault("misfit_value")
	pdu := ToGo(m)
	var b []byte
	var err error
	if p := r.Call(site+".IEncode", func() { b, err = pdu.IEncode() }); p != nil {
		r.Fail("C01", "panic", site, "IEncode-misfit/"+p.Kind, "IEncode panicked on an over-long %s: %s at %s", f.GoField, p.Value, p.Frame)
		return
	}
	r.Event("misfit %s.%s width=%d len=%d -> err=%v bytes=%d", site, f.GoField, f.Width, f.Width+extra, err != nil, len(b))
	if err == nil {
		r.Fail("C01", "misfit-accepted", site, "field="+f.GoField, "%s holds %d octets for a %d-octet slot, IEncode returned %d octets and no error", f.GoField, f.Width+extra, f.Width, len(b))
	} else if len(b) != 0 {
		r.Fail("C01", "misfit-bytes-and-error", site, "field="+f.GoField, "IEncode returned an error and %d octets", len(b))
	}
}

// runCountSweep: destination count 0..255 x body length, for the four submit
// types: the length prefix must equal len(bytes) and the model peer must find
// every field (C02's explicit sweep).
func runCountSweep(r *core.Run) {
	sp := Spec()
	idx := r.Cfg.Index
	coarse := r.Cfg.Mode == "count-sweep-coarse"
	var typ, dests, body int
	if coarse {
		grid := []int{0, 1, 139, 140, 159, 160, 254, 255}
		typ = int(idx / (256 * 8))
		dests = int(idx/8) % 256
		body = grid[idx%8]
	} else {
		typ = int(idx / (256 * 256))
		dests = int(idx/256) % 256
		body = int(idx % 256)
	}
	site := submitTypes[typ%4]
	parts := strings.SplitN(site, ".", 2)
	pd := sp.Proto(parts[0]).PDU(parts[1])
	// a fixed, cheap assignment (the tape is not needed): every other field from a small deterministic generator
	ch := core.NewSeedChooser(core.Mix(7, site, uint64(dests*256+body)))
	m := spec.Gen(ch, pd, spec.GenOpt{NoTail: true, BinNoNul: true})
	for _, f := range pd.Fields {
		switch f.Kind {
		case spec.KRep:
			l := make([][]byte, dests)
			for i := range l {
				l[i] = []byte(fmt.Sprintf("86138%08d", i))
			}
			m.F[f.Name].L = l
			m.V(f.Ref).U = uint64(dests)
		case spec.KOctets:
			m.F[f.Name].B = ch.Blob(body, "any")
			m.V(f.Ref).U = uint64(body)
		}
	}
	r.Probe("sweep_" + site)
	pdu := ToGo(m)
	applyDocumentedNormalisation(m)
	var b []byte
	var err error
	if p := r.Call(site+".IEncode", func() { b, err = pdu.IEncode() }); p != nil {
		r.Fail("C02", "panic", site, "IEncode/"+p.Kind, "dests=%d body=%d: %s", dests, body, p.Value)
		return
	}
	if err != nil {
		r.Fail("C02", "layout", site, "encode-error", "dests=%d body=%d: %v", dests, body, err)
		return
	}
	r.Event("sweep %s dests=%d body=%d -> %d octets", site, dests, body, len(b))
	if l, _, _, ok := headerBits(pd.Proto, b); !ok || int(l) != len(b) {
		r.Fail("C02", "length-prefix", site, "encode", "dests=%d body=%d: length prefix %d but %d octets were produced", dests, body, l, len(b))
		return
	}
	checkLayout(r, sent{msg: m, pd: pd, bytes: b})
}

// ---- slot sweep: every octet value at every position of every text slot -----------------------------------------
//
// One run = one PDU type with all its text slots filled to their width, one choice of the octet in front (left as it
// is, or a small integer / magic from sweepFront) and one body length; inside the run every position p of every text
// slot takes every value 1..255 in turn. Each variant is encoded by the library (must equal the model image), and the
// model image is decoded by the library (must give the values back). A decoder or encoder that treats some octet
// value at some offset specially - a layout guess, a terminator other than NUL, a trim - cannot hide from this.

var sweepFront = []int{-1, 0x01}
var sweepFrontWide = []int{-1, 0x01, 0x02, 0x05, 0x06, 0x1b, 0x20, 0x30, 0x7f, 0x80, 0xff}
var sweepBodies = []int{0, 100}
var sweepBodiesWide = []int{0, 7, 100, 140, 231}

func allPDUs() []*spec.PDU {
	var out []*spec.PDU
	for _, p := range Spec().Protos {
		out = append(out, p.PDUs...)
	}
	return out
}

func slotSweepCount(wide bool) uint64 {
	if wide {
		return uint64(len(allPDUs()) * len(sweepFrontWide) * len(sweepBodiesWide))
	}
	return uint64(len(allPDUs()) * len(sweepFront) * len(sweepBodies))
}

func runSlotSweep(r *core.Run) {
	prop := r.Cfg.Property
	fronts, bodies := sweepFront, sweepBodies
	if r.Cfg.Mode == "slot-sweep-wide" {
		fronts, bodies = sweepFrontWide, sweepBodiesWide
	}
	pdus := allPDUs()
	idx := int(r.Cfg.Index)
	pd := pdus[idx%len(pdus)]
	front := fronts[(idx/len(pdus))%len(fronts)]
	body := bodies[(idx/(len(pdus)*len(fronts)))%len(bodies)]
	site := pd.Site()
	ch := core.NewSeedChooser(core.Mix(11, site, uint64(body)))
	m := spec.Gen(ch, pd, spec.GenOpt{NoTail: true, BinNoNul: true, Shape: 2, MaxDests: 2, MaxBody32: 140, TextOnly: true})
	for _, f := range pd.Fields {
		if f.Kind == spec.KOctets {
			m.F[f.Name].B = ch.Blob(body, "any")
			m.V(f.Ref).U = uint64(body)
		}
	}
	applyDocumentedNormalisation(m)
	r.Event("slot sweep %s front=%d body=%d", site, front, body)
	variants := 0
	for _, f := range pd.Fields {
		if f.Kind != spec.KStr && f.Kind != spec.KCStr {
			continue
		}
		v := m.F[f.Name]
		if len(v.B) < 2 || v.Raw != nil {
			continue
		}
		for p := 1; p < len(v.B); p++ {
			o0, o1 := v.B[p-1], v.B[p]
			if front >= 0 {
				v.B[p-1] = byte(front)
			}
			for x := 1; x <= 255; x++ {
				v.B[p] = byte(x)
				variants++
				if !slotVariant(r, prop, m, pd, f.Name, p, x) {
					return
				}
			}
			v.B[p-1], v.B[p] = o0, o1
		}
	}
	if variants > 0 {
		r.Probe("slot_sweep_variants")
	}
}

func slotVariant(r *core.Run, prop string, m *spec.Msg, pd *spec.PDU, field string, p, x int) bool {
	site := pd.Site()
	img, _ := spec.Build(m)
	// library encodes: must be the model image
	pdu := ToGo(m)
	var b []byte
	var err error
	if pp := r.Call(site+".IEncode", func() { b, err = pdu.IEncode() }); pp != nil {
		r.Fail(prop, "panic", pp.Frame, pp.Kind, "slot sweep: %s with octet %#x at position %d of %s: %s", site, x, p, field, pp.Value)
		return false
	}
	if err != nil {
		r.Fail(prop, "encode-error", site, "slot-sweep/field="+field, "octet %#x at position %d of %s (a NUL-free value that fits its slot) is refused: %v", x, p, field, err)
		return false
	}
	if !bytes.Equal(b, img) {
		what := "layout"
		if prop == "C01" {
			what = "roundtrip"
		}
		// C01 does not judge the layout; it decodes what the library produced
		if prop == "C02" {
			r.Fail(prop, what, site, "slot-sweep/field="+field, "octet %#x at position %d of %s: the library's image differs from the specification's", x, p, field)
			return false
		}
		img = b
	}
	fresh := ctor[site]()
	if pp := r.Call(site+".IDecode", func() { err = fresh.IDecode(img) }); pp != nil {
		r.Fail(prop, "panic", pp.Frame, pp.Kind, "slot sweep: decoding %s with octet %#x at position %d of %s: %s", site, x, p, field, pp.Value)
		return false
	}
	if err != nil {
		r.Fail(prop, "decode", site, "slot-sweep/refused", "octet %#x at position %d of %s: a well-formed image is refused: %v", x, p, field, err)
		return false
	}
	if prop == "C11" {
		// the relay's clause: what was decoded from a canonical image encodes to that image again
		var again []byte
		if pp := r.Call(site+".IEncode", func() { again, err = fresh.IEncode() }); pp != nil {
			r.Fail(prop, "panic", pp.Frame, "reencode/"+pp.Kind, "slot sweep: re-encoding %s with octet %#x at position %d of %s: %s", site, x, p, field, pp.Value)
			return false
		}
		if err != nil {
			r.Fail(prop, "reencode", site, "error", "slot sweep: octet %#x at position %d of %s: the decoded image cannot be encoded again: %v", x, p, field, err)
			return false
		}
		if !bytes.Equal(again, img) {
			r.Fail(prop, "canonical", site, "octets", "slot sweep: octet %#x at position %d of %s: re-encoding the decoded canonical image gives other octets (%d vs %d)", x, p, field, len(again), len(img))
			return false
		}
		return true
	}
	got := FromGo(fresh, pd, true)
	got.CmdID = m.CmdID
	for _, name := range spec.Diff(m, got) {
		if f := pd.Field(name); f != nil && f.Kind == spec.KBin {
			continue // fixed binary slots have their own findings (listed); this sweep is about text slots
		}
		kind := "roundtrip"
		if prop == "C02" {
			kind = "decode"
		}
		r.Fail(prop, kind, site, "slot-sweep/field="+name, "octet %#x at position %d of %s: field %s carries %s, decoded %s", x, p, field, name, spec.Canon(m)[name], spec.Canon(got)[name])
		return false
	}
	return true
}
