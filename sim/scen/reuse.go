package scen

import (
	"bytes"
	"context"
	"errors"
	"fmt"
	"os"
	"reflect"
	"runtime"
	"strings"
	"sync"
	"time"

	protocol "github.com/hujm2023/go-sms-protocol"
	"github.com/hujm2023/go-sms-protocol/cmpp"
	"github.com/hujm2023/go-sms-protocol/cmpp/cmpp20"
	"github.com/hujm2023/go-sms-protocol/codec"
	"github.com/hujm2023/go-sms-protocol/datacoding"
	"github.com/hujm2023/go-sms-protocol/datacoding/gsm7encoding"
	"github.com/hujm2023/go-sms-protocol/logger"
	"github.com/hujm2023/go-sms-protocol/smgp"
	"github.com/hujm2023/go-sms-protocol/smgp/smgp30"
	"github.com/hujm2023/go-sms-protocol/smpp"
	"github.com/hujm2023/go-sms-protocol/smpp/smpp34"
	"github.com/hujm2023/go-sms-protocol/verifhook"

	"verif/sim/core"
	"verif/sim/simnet"
	"verif/sim/spec"
)

// reuse — C12, and concurrent — C13 (leg A). 1..64 tasks, each with its own
// SimConn and its own values, run histories of library calls: decode the next
// inbound frame straight from the zero-copy Peek view, encode, String, split,
// parse a concatenation header, Utf8ToUcs2Pooled, receipt extraction, batch
// Build. Every result is deep-snapshotted at return. Faults: the input view is
// scribbled over right after each decode (and destroyed by the next fill under
// the realloc-poison discipline), a second output of the same encode is
// scribbled over, every pooled buffer is poisoned when it is released, and
// the pools hand buffers from task to task under a tape-chosen interleaving.
// Oracles: (1) after later steps every earlier result still equals its
// snapshot; (2) each result equals the result of the same call in a
// sequential, fault-free reference pass of the same history.

func init() {
	Register(&Scenario{
		Name: "reuse", Props: []string{"C12"}, Bubble: true, Pools: true,
		Plan: simple(8000, 450000),
		Run:  func(r *core.Run) { runHistories(r, "C12") },
		Real: []string{"codec.Decode (zero-copy views) + dispatchers / IDecode", "IEncode, String of all PDU types", "EncodeCMPPContentAndSplit / EncodeSMPPContentAndSplit", "ParseLongSmsContent", "cmpp.Utf8ToUcs2Pooled", "receipt extractors", "packet.Writer / PDUStringer pools (bytebufferpool, sync.Pool)"},
		Stub: []string{"history generator", "SimConn (realloc-poison / compact / ring) and link", "scribble_input / scribble_output / poison_release fault injectors", "seeded cooperative scheduler", "snapshot store and sequential reference pass"},
		Rule: "1..4 tasks x histories of 1..1000 operations (mostly <= 60) on distinct values; faults: scribble over the input view after every decode, scribble over a second output of an encode, poison every released pooled buffer, seeded task switches at every pool touch point. Non-trivial = a fault fired or a task switch happened; distinct = distinct event-log hash",
	})
	Register(&Scenario{
		Name: "concurrent", Props: []string{"C13"}, Bubble: true, Pools: true,
		Plan: simple(3000, 160000),
		Run:  func(r *core.Run) { runHistories(r, "C13") },
		Real: []string{"as reuse, plus BatchDataCodingEncoder.Build whose errgroup workers become scheduler tasks"},
		Stub: []string{"seeded cooperative scheduler choosing the running task at every yield site (leg A)", "free-running -race leg at GOMAXPROCS 1/4/16 with seeded Gosched at the yield sites (leg B, observes real executions)"},
		Rule: "2..64 tasks each running its own seeded sequence of library calls on its own values; the scheduler picks the running task at every yield site (pool Get/Put, builder pool, errgroup worker start); every result must equal the sequential reference pass. Non-trivial = at least one preemption happened; distinct = distinct event-log hash (includes every scheduling decision)",
	})
}

type hop struct {
	kind   int // 0 decode 1 encode 2 string 3 split 4 parseudh 5 ucs2pooled 6 receipt 7 build
	pd     *spec.PDU
	msg    *spec.Msg
	frame  []byte
	text   string
	coding int
	smpp   bool
	ref    byte
}

type hres struct {
	kind  int
	live  any    // what the call returned (watched for later corruption)
	snap  any    // deep snapshot taken at return
	label string // site for finding keys
}

var hopName = []string{"decode", "encode", "String", "split", "ParseLongSmsContent", "Utf8ToUcs2Pooled", "ExtractDeliveryReceipt", "Build", "helper-packet", "status-report", "refused-encode-then-encode", "String-foreign-id", "decode-into-kept-value", "text-codec-on-caller-buffer", "optional-container-image"}

// breakField makes a value the encoder must refuse (or at least treat unusually): the k-th text field outside the
// header, or the first element of the k-th text list, is replaced by long.
func breakField(pdu any, k int, long string) string {
	type slot struct {
		name string
		v    reflect.Value
	}
	var slots []slot
	rv := reflect.ValueOf(pdu).Elem()
	for i := 0; i < rv.NumField(); i++ {
		f := rv.Field(i)
		n := rv.Type().Field(i).Name
		if n == "Header" || !f.CanSet() {
			continue
		}
		switch {
		case f.Kind() == reflect.String:
			slots = append(slots, slot{n, f})
		case f.Kind() == reflect.Slice && f.Type().Elem().Kind() == reflect.String && f.Len() > 0:
			slots = append(slots, slot{n + "[0]", f.Index(0)})
		}
	}
	if len(slots) == 0 {
		return ""
	}
	sl := slots[k%len(slots)]
	sl.v.SetString(long)
	return sl.name
}

// setCommandID overwrites the command id in a PDU value's header.
func setCommandID(pdu any, id uint32) {
	h := reflect.ValueOf(pdu).Elem().FieldByName("Header")
	if !h.IsValid() {
		return
	}
	for _, n := range []string{"CommandID", "ID"} {
		if f := h.FieldByName(n); f.IsValid() && f.CanSet() {
			f.SetUint(uint64(id))
			return
		}
	}
}

var foreignIDs = []uint32{0, 3, 9, 10, 11, 0x10, 0x11, 0x15, 0x21, 0x102, 0x103, 0x1000, 0x80000000, 0x80000009, 0x80000015, 0x7fffffff, 0xffffffff}

// scribbleBytes overwrites every []byte reachable from a decoded PDU (message
// bodies, optional-parameter values) in place.
func scribbleBytes(p any) {
	var walk func(v reflect.Value)
	walk = func(v reflect.Value) {
		switch v.Kind() {
		case reflect.Ptr, reflect.Interface:
			if !v.IsNil() {
				walk(v.Elem())
			}
		case reflect.Struct:
			for i := 0; i < v.NumField(); i++ {
				walk(v.Field(i))
			}
		case reflect.Slice:
			if v.Type().Elem().Kind() == reflect.Uint8 {
				b := v.Bytes()
				for i := range b {
					b[i] = 0x3C
				}
				return
			}
			for i := 0; i < v.Len(); i++ {
				walk(v.Index(i))
			}
		case reflect.Map:
			switch m := v.Interface().(type) {
			case smpp.TLVs:
				for _, t := range m {
					b := t.Value()
					for i := range b {
						b[i] = 0x3C
					}
				}
			case smgp.Options:
				for _, o := range m {
					b := o.Value()
					for i := range b {
						b[i] = 0x3C
					}
				}
			}
		}
	}
	walk(reflect.ValueOf(p))
}

// fillSpare writes into the spare capacity (the octets between len and cap) of every []byte reachable from a result, and
// of the element slots between len and cap of every slice of strings or byte slices. The owner of a result may grow it
// in place (append within capacity); that must not reach any other result, any later result or the library's own state.
func fillSpare(p any) {
	var walk func(v reflect.Value)
	fill := func(b []byte) {
		sp := b[len(b):cap(b)]
		for i := range sp {
			sp[i] = 0xEE
		}
	}
	walk = func(v reflect.Value) {
		switch v.Kind() {
		case reflect.Ptr, reflect.Interface:
			if !v.IsNil() {
				walk(v.Elem())
			}
		case reflect.Struct:
			for i := 0; i < v.NumField(); i++ {
				walk(v.Field(i))
			}
		case reflect.Slice:
			if v.Type().Elem().Kind() == reflect.Uint8 {
				fill(v.Bytes())
				return
			}
			for i := 0; i < v.Len(); i++ {
				walk(v.Index(i))
			}
		case reflect.Map:
			switch m := v.Interface().(type) {
			case smpp.TLVs:
				for _, t := range m {
					fill(t.Value())
				}
			case smgp.Options:
				for _, o := range m {
					fill(o.Value())
				}
			}
		}
	}
	if p != nil {
		walk(reflect.ValueOf(p))
	}
}

// ownerAdds puts one more entry into every optional-parameter container reachable from a decoded PDU (a relay flags a
// message before it forwards it); other decoded values must not see it.
func ownerAdds(p any) {
	v := reflect.ValueOf(p)
	if v.Kind() != reflect.Ptr || v.IsNil() {
		return
	}
	e := v.Elem()
	for i := 0; i < e.NumField(); i++ {
		f := e.Field(i)
		if !f.CanAddr() || !f.CanSet() {
			continue
		}
		switch m := f.Addr().Interface().(type) {
		case *smpp.TLVs:
			m.SetTLV(smpp.NewTLV(0x3ff1, []byte{0xEE}))
		case *smgp.Options:
			m.Add(smgp.NewOption(smgp.Tag(0x3ff1), []byte{0xEE}))
		}
	}
}

// withBirth carries a result together with the snapshot taken the moment it
// was returned (before the fault injector touched a sibling output).
type withBirth struct {
	live  any
	birth any
}

func unwrap(v any) (live, birth any) {
	if w, ok := v.(withBirth); ok {
		return w.live, w.birth
	}
	return v, nil
}

// snapshot deep-copies a result, cloning strings too (a string that shares
// memory with a reused buffer must be caught).
func snapshot(v any) any {
	switch x := v.(type) {
	case nil:
		return nil
	case keptError:
		return "decode error: " + strings.Clone(x.err.Error())
	case []byte:
		return append([]byte(nil), x...)
	case string:
		return strings.Clone(x)
	case [][]byte:
		out := make([][]byte, len(x))
		for i := range x {
			out[i] = append([]byte(nil), x[i]...)
		}
		return out
	case []string:
		out := make([]string, len(x))
		for i := range x {
			out[i] = strings.Clone(x[i])
		}
		return out
	}
	cp := deepCopy(v)
	var fix func(rv reflect.Value)
	fix = func(rv reflect.Value) {
		switch rv.Kind() {
		case reflect.String:
			if rv.CanSet() {
				rv.SetString(strings.Clone(rv.String()))
			}
		case reflect.Struct:
			for i := 0; i < rv.NumField(); i++ {
				fix(rv.Field(i))
			}
		case reflect.Slice, reflect.Array:
			for i := 0; i < rv.Len(); i++ {
				fix(rv.Index(i))
			}
		}
	}
	fix(reflect.ValueOf(cp).Elem())
	return cp
}

// keptError wraps an error value a caller holds on to (queued for a log line or a negative acknowledgement).
type keptError struct{ err error }

func sameValue(a, b any) (bool, string) {
	if k, ok := b.(keptError); ok {
		b = "decode error: " + k.err.Error() // rendered now
	}
	if k, ok := a.(keptError); ok {
		a = "decode error: " + k.err.Error()
	}
	switch x := a.(type) {
	case nil:
		return b == nil, "nil"
	case []byte:
		y, ok := b.([]byte)
		return ok && bytes.Equal(x, y), "bytes"
	case string:
		y, ok := b.(string)
		return ok && x == y, "string"
	case [][]byte:
		y, ok := b.([][]byte)
		if !ok || len(x) != len(y) {
			return false, "parts"
		}
		for i := range x {
			if !bytes.Equal(x[i], y[i]) {
				return false, fmt.Sprintf("part[%d]", i)
			}
		}
		return true, ""
	case []string:
		y, ok := b.([]string)
		if !ok || len(x) != len(y) {
			return false, "strings"
		}
		for i := range x {
			if x[i] != y[i] {
				return false, fmt.Sprintf("string[%d]", i)
			}
		}
		return true, ""
	}
	if b == nil || reflect.TypeOf(a) != reflect.TypeOf(b) {
		return false, "type"
	}
	d := goDiffAll(a, b)
	if len(d) > 0 {
		return false, "field=" + d[0]
	}
	return true, ""
}

// goDiffAll is goDiff including the header length fields.
func goDiffAll(a, b any) []string {
	d := goDiff(a, b)
	ha, hb := reflect.ValueOf(a).Elem().FieldByName("Header"), reflect.ValueOf(b).Elem().FieldByName("Header")
	if ha.IsValid() && hb.IsValid() {
		for _, n := range []string{"TotalLength", "Length"} {
			fa, fb := ha.FieldByName(n), hb.FieldByName(n)
			if fa.IsValid() && fb.IsValid() && fa.Uint() != fb.Uint() {
				d = append(d, "Header."+n)
			}
		}
	}
	return d
}

func genHistory(c *core.Chooser, prop string, tid int, maxOps int) []hop {
	sp := Spec()
	n := 1 + c.Size(maxOps-1, 1, 2, 8)
	proto := sp.Protos[c.Intn(len(sp.Protos))] // a task's connection speaks one protocol
	ops := make([]hop, 0, n)
	for i := 0; i < n; i++ {
		var o hop
		weights := []int{5, 4, 2, 2, 1, 2, 1, 1, 2, 1, 1, 1, 2, 2, 2}
		if prop == "C13" {
			weights[7] = 2
		}
		o.kind = c.Pick(weights...)
		switch o.kind {
		case 13:
			o.coding = c.Intn(14) // which codec entry point
			fam := []family{famASCII, famASCII, famLatin1, famUCS2, famGBK, famGSM7U}[c.Intn(6)]
			o.text = genSMSText(c, fam, 1+c.Intn(90), nil2run)
			if c.Prob(1, 4) {
				// long and dense in multi-unit characters: outgrows size estimates made per character
				sp := multiUnit[fam]
				if len(sp) == 0 {
					sp = multiUnit[famUCS2]
				}
				var sb strings.Builder
				for i, n := 0, 40+c.Intn(160); i < n; i++ {
					sb.WriteString(sp[c.Intn(len(sp))])
					if c.Prob(1, 4) {
						sb.WriteByte('a')
					}
				}
				o.text = sb.String()
			}
		case 14:
			o.smpp = c.Bool()
			o.coding = c.Intn(1 << 20) // sub-seed for tags and values
			o.ref = byte(c.Intn(5))    // number of parameters
		case 10, 11, 12:
			pd := proto.PDUs[c.Intn(len(proto.PDUs))]
			o.pd, o.msg = pd, spec.Gen(c, pd, spec.GenOpt{MaxDests: 3, MaxBody32: 60, BinNoNul: true, NoTail: o.kind == 11})
			switch o.kind {
			case 10:
				o.coding = c.Intn(64)
				o.text = []string{strings.Repeat("x", 300), "zz-not-hex-zz", strings.Repeat("7", 21), strings.Repeat("\u00e9", 40)}[c.Intn(4)]
			case 11:
				o.coding = int(foreignIDs[c.Intn(len(foreignIDs))])
				if c.Prob(1, 3) {
					o.coding = int(uint32(c.Uint64()))
				}
			case 12:
				o.frame, _ = spec.Build(o.msg)
			}
		case 0, 1, 2:
			if o.kind == 0 {
				o.ref = byte(c.Intn(2)) // under a blocking reader: keep the frame (1) or the decoded value (0)
			}
			pd := proto.PDUs[c.Intn(len(proto.PDUs))]
			opt := spec.GenOpt{MaxDests: 2, MaxBody32: 120, BinNoNul: true, BigTLV: c.Prob(1, 5)}
			if o.kind == 2 {
				opt.NoTail = true // String() of optional parameters iterates a Go map
			}
			o.pd, o.msg = pd, spec.Gen(c, pd, opt)
			if o.kind == 1 && declaredLengthSlot[pd.Site()] && len(ops)%3 == 1 {
				// a body shorter than the length declared for it: the encoder pads the slot - with dozens to hundreds of
				// octets, more than any fixed-width field of the protocols needs
				for _, f := range pd.Fields {
					if f.Kind == spec.KOctets && f.Ref != "" {
						if n := len(o.msg.F[f.Name].B) + 33 + (len(ops)*37+tid*11)%190; n <= 255 {
							o.msg.V(f.Ref).U = uint64(n)
						}
					}
				}
			}
			if o.kind == 0 {
				o.frame, _ = spec.Build(o.msg)
				if hl := pd.Proto.HeaderLen(); len(o.frame) > hl+1 && c.Prob(1, 10) {
					// a frame cut short somewhere in its body whose length prefix says so too (a peer that omits trailing
					// fields): whatever the decoder makes of it, the frames behind it in the buffer are not its to touch
					n := hl + c.Intn(len(o.frame)-hl)
					if c.Bool() {
						n = len(o.frame) - 1 - c.Intn(min(24, len(o.frame)-hl-1))
					}
					o.frame = append([]byte(nil), o.frame[:n]...)
					o.frame[0], o.frame[1], o.frame[2], o.frame[3] = byte(n>>24), byte(n>>16), byte(n>>8), byte(n)
				}
			}
		case 3:
			o.smpp = c.Bool()
			if o.smpp {
				o.coding = []int{0, 99, 1, 3, 8}[c.Intn(5)]
			} else {
				o.coding = []int{0, 8, 15}[c.Intn(3)]
			}
			f := smppFamily(o.coding)
			if !o.smpp {
				f = cmppFamily(o.coding)
			}
			o.text = genSMSText(c, f, 100+c.Intn(400), nil2run)
			if c.Prob(1, 40) {
				// far beyond 255 parts: the call is refused (and says so in its own words)
				o.text = strings.Repeat(o.text, 1+(36000+c.Intn(30000))/max(len(o.text), 1))
			} else if c.Prob(1, 25) {
				// dozens to a couple of hundred parts: sizes at which an implementation may start to parallelise
				o.text = strings.Repeat(o.text, 1+(5000+c.Intn(20000))/max(len(o.text), 1))
			}
			o.ref = byte(c.Intn(256))
		case 4:
			o.text = string(append([]byte{5, 0, 3, byte(c.Intn(256)), byte(1 + c.Intn(5)), byte(1 + c.Intn(5))}, c.Blob(c.Intn(40), "any")...))
		case 5:
			o.text = genSMSText(c, famUCS2, 2+c.Intn(120), nil2run)
		case 6:
			o.smpp = c.Bool()
			o.text = fmt.Sprintf("id:%s sub:001 dlvrd:001 submit date:2401011200 done date:2401011201 stat:%s err:000 text:%s", c.Blob(10, "digits"), c.Blob(7, "print"), c.Blob(c.Intn(20), "digits"))
		case 9:
			o.text = string(c.Blob(7, "print")) + string(c.Blob(10, "digits")) + string(c.Blob(10, "digits")) + string(c.Blob(13, "digits"))
			o.coding = c.Intn(1 << 30)
		case 8:
			o.coding = c.Intn(8)      // which helper
			o.ref = byte(c.Intn(256)) // low octet of the sequence number
		case 7:
			o.smpp = c.Bool()
			o.text = genSMSText(c, famGSM7U, 20+c.Intn(300), nil2run)
			if (len(ops)+tid)%5 == 0 {
				// a long text (one to three kilobytes): sizes at which an implementation may switch strategy
				for len(o.text) < 1100+(len(ops)*131+tid*17)%2000 {
					o.text += o.text + "."
				}
			}
			o.ref = byte(tid)    // unique per in-flight Build: keeps adopted workers distinguishable
			o.coding = c.Intn(5) // 0 a fresh builder; 1, 2: the task's own builder value, used again and again; 3, 4: the logging paths
		}
		ops = append(ops, o)
	}
	return ops
}

// logCapture receives what the library's default logger writes during a run. Every line must carry the level of the
// call that produced it: the fallback notice is an Info line, the failure an Error line - also when many goroutines log.
type logCapture struct {
	mu    sync.Mutex
	lines []string
}

func (l *logCapture) Write(p []byte) (int, error) {
	l.mu.Lock()
	l.lines = append(l.lines, string(p))
	l.mu.Unlock()
	return len(p), nil
}

func (l *logCapture) bad() string {
	l.mu.Lock()
	defer l.mu.Unlock()
	for _, ln := range l.lines {
		switch {
		case strings.Contains(ln, "use ucs2 as default"):
			if !strings.Contains(ln, "[Info]") {
				return ln
			}
		case strings.Contains(ln, "all dataCoding failed"):
			if !strings.Contains(ln, "[Error]") {
				return ln
			}
		}
	}
	return ""
}

func captureLog() (*logCapture, func()) {
	lc := &logCapture{}
	logger.SetOutput(lc)
	return lc, func() { logger.SetOutput(os.Stderr) }
}

// twinBuilds makes two tasks begin with Build requests that a key made of "the numbers" would take for one: same
// content and reference, candidate lists that differ in unpacked versus packed GSM 7-bit only (both say 0 in
// ToInt()), or the same numbers under the other protocol. Each caller must get the answer to ITS request.
func twinBuilds(c *core.Chooser, hists [][]hop) {
	a, b := 0, 1+c.Intn(len(hists)-1)
	t := genSMSText(c, famASCII, 75+c.Intn(80), nil2run) // 7-bit in one part, UCS-2 in two
	ref := byte(c.Intn(256))
	oa := hop{kind: 7, smpp: true, text: t, ref: ref, coding: 5}
	ob := hop{kind: 7, smpp: true, text: t, ref: ref, coding: 6}
	if c.Prob(1, 3) {
		ob.coding = 7
	}
	hists[a] = append([]hop{oa}, hists[a]...)
	hists[b] = append([]hop{ob}, hists[b]...)
}

// twinSplits makes two tasks begin with split requests that are different but easy to confuse: the reference of one
// followed by its text reads like the reference of the other followed by ITS text (23 + "T…" / 2 + "3T…"), or they
// differ in the reference only, or in the last character only. Whatever a library keys on its arguments (a cache, a
// coalescing group) must keep such requests apart while both are in flight.
func twinSplits(c *core.Chooser, hists [][]hop) {
	a, b := 0, 1+c.Intn(len(hists)-1)
	smpp := c.Bool()
	coding := 8
	fam := famUCS2
	if c.Bool() {
		coding = 0
		fam = famGSM7U
		if !smpp {
			fam = famASCII
		}
	}
	t := genSMSText(c, fam, 200+c.Intn(300), nil2run)
	x, y := 1+c.Intn(9), c.Intn(10)
	oa := hop{kind: 3, smpp: smpp, coding: coding, text: t, ref: byte(10*x + y)}
	ob := oa
	switch c.Intn(3) {
	case 0:
		ob.ref, ob.text = byte(x), string(rune('0'+y))+t
	case 1:
		ob.ref = oa.ref + 1
	default:
		ob.text = t[:len(t)-1] + "z"
	}
	hists[a] = append([]hop{oa}, hists[a]...)
	hists[b] = append([]hop{ob}, hists[b]...)
}

// nil2run is a throw-away run for generator probes outside a run context.
var nil2run = core.NewRun(core.NewSeedChooser(1), core.Config{}, nil)

type taskState struct {
	id       int
	ops      []hop
	ref      []hres // sequential reference results
	res      []hres
	conn     *simnet.SimConn
	proto    string
	link     *byteLink
	cd       codec.Codec
	done     bool
	kept     map[string]protocol.PDU          // values the task decodes into again and again
	builder  *protocol.BatchDataCodingEncoder // the task's own builder value
	consumed int                              // octets of the task's stream handed out as frames so far
	// blocked: the task reads its connection through the blocking extractor, whose frames belong to the caller
	blocked bool
}

// execOp performs one operation and returns the live result.
func execOp(r *core.Run, t *taskState, o hop) (live any, label string, panicked *core.PanicInfo) {
	ctx := context.Background()
	switch o.kind {
	case 0:
		label = o.pd.Site()
		p := r.Call(label+".decode", func() {
			// zero-copy: the frame is a Peek view into the connection's buffer
			var view []byte
			var err error
			for {
				if t.blocked {
					view, err = t.cd.DecodeBlocked(t.conn)
					break
				}
				view, err = t.cd.Decode(t.conn)
				if !errors.Is(err, codec.ErrPacketNotComplete) {
					break
				}
				chunk, lerr := t.link.Next()
				if len(chunk) > 0 {
					t.conn.Arrive(chunk)
				}
				if lerr != nil && len(chunk) == 0 {
					break
				}
			}
			if err != nil {
				live = "framing error: " + err.Error()
				return
			}
			t.consumed += len(view)
			// the frame handed over is, octet for octet, what the peer sent (an expectation that does not come from
			// the reference pass, which runs the same library)
			if sent := t.link.stream[max(0, t.consumed-len(view)):min(t.consumed, len(t.link.stream))]; !bytes.Equal(view, sent) && r.Cfg.Property != "" {
				r.Fail(r.Cfg.Property, "input-buffer-written", label, "the-frame-itself", "task %d: the frame the extractor returned differs from the octets sent (%s … instead of %s …)", t.id, hexN(view, 8), hexN(sent, 8))
			}
			defer func() {
				// the octets still unread in the connection's buffer belong to the connection: they must be what the
				// peer sent, whatever the decoder did with the frame in front of them
				un := t.conn.Unread()
				rest := t.link.stream[min(t.consumed, len(t.link.stream)):]
				if len(un) <= len(rest) && !bytes.Equal(un, rest[:len(un)]) && r.Cfg.Property != "" {
					r.Fail(r.Cfg.Property, "input-buffer-written", label, "behind-the-frame", "task %d: after decoding a %d-octet frame the unread octets behind it in the connection's buffer differ from what was sent", t.id, len(view))
				}
			}()
			if t.blocked && o.ref == 1 {
				// the frame a blocking extractor returns is the caller's: it is kept as it is, unscribbled
				live = withBirth{live: view, birth: snapshot(view)}
				return
			}
			pdu, derr := dispatcher[t.proto](view)
			if derr != nil {
				// types the dispatcher does not know are decoded directly
				pdu = ctor[label]()
				derr = pdu.IDecode(view)
			}
			if derr != nil {
				// the error value is a result too: it is kept, and what it says must not change when the buffer it
				// was decoded from is overwritten or refilled
				live = withBirth{live: keptError{derr}, birth: "decode error: " + strings.Clone(derr.Error())}
			} else {
				// FAULT scribble_output: a second PDU decoded from the same frame belongs to another owner,
				// who overwrites every byte value it holds (decoded values share no memory with each other)
				pre := snapshot(pdu)
				sib := ctor[label]()
				if sib.IDecode(view) == nil {
					scribbleBytes(sib)
					fillSpare(sib)
					ownerAdds(sib)
				}
				live = withBirth{live: pdu, birth: pre}
			}
			// FAULT scribble_input: the caller reuses its read buffer right after decoding
			for i := range view {
				view[i] = 0x5A
			}
		})
		return live, label, p
	case 1:
		label = o.pd.Site()
		p := r.Call(label+".IEncode", func() {
			pdu := ToGo(o.msg)
			b, err := pdu.IEncode()
			if err != nil {
				live = "encode error"
				return
			}
			pre := snapshot(b)
			// FAULT scribble_output: a second output of the same call is overwritten by its owner
			b2, _ := ToGo(o.msg).IEncode()
			for i := range b2 {
				b2[i] = 0xC3
			}
			live = withBirth{live: b, birth: pre}
		})
		return live, label, p
	case 2:
		label = o.pd.Site()
		p := r.Call(label+".String", func() { live = ToGo(o.msg).String() })
		return live, label, p
	case 3:
		label = "EncodeCMPPContentAndSplit"
		if o.smpp {
			label = "EncodeSMPPContentAndSplit"
		}
		p := r.Call(label, func() {
			var parts [][]byte
			var err error
			if o.smpp {
				parts, _, err = protocol.EncodeSMPPContentAndSplit(ctx, o.text, datacoding.SMPPDataCoding(o.coding), o.ref)
			} else {
				parts, _, err = protocol.EncodeCMPPContentAndSplit(ctx, o.text, datacoding.CMPPDataCoding(o.coding), o.ref)
			}
			if err != nil {
				live = "split error: " + err.Error() // the text of an error is part of what the call returned
			} else {
				live = parts
			}
		})
		return live, label, p
	case 4:
		label = "ParseLongSmsContent"
		p := r.Call(label, func() {
			buf := []byte(o.text)
			k, total, idx, rest, valid := protocol.ParseLongSmsContent(string(buf))
			live = fmt.Sprintf("%d/%d/%d/%v/%x", k, total, idx, valid, rest)
		})
		return live, label, p
	case 5:
		label = "cmpp.Utf8ToUcs2Pooled"
		p := r.Call(label, func() { live = cmpp.Utf8ToUcs2Pooled(o.text) })
		return live, label, p
	case 6:
		label = "ExtractDeliveryReceipt"
		p := r.Call(label, func() {
			buf := []byte(o.text)
			s := string(buf)
			if o.smpp {
				d, _ := smpp34.ExtractDeliveryReceipt(s)
				live = []string{d.ID, d.Sub, d.Dlvrd, d.SubDate, d.DoneDate, d.Stat, d.Err, d.Text}
			} else {
				d, _ := smgp30.ExtractDeliveryReceipt(s)
				live = []string{d.ID, d.Sub, d.Dlvrd, d.SubDate, d.DoneDate, d.Stat, d.Err, d.Text}
			}
			for i := range buf {
				buf[i] = 0x5A
			}
		})
		return live, label, p
	case 9:
		label = "cmpp.SubPduDeliveryContent.IEncode"
		p := r.Call(label, func() {
			mk := func(x int) *cmpp.SubPduDeliveryContent {
				return &cmpp.SubPduDeliveryContent{MsgID: uint64(o.coding+x) * 1000003, Stat: o.text[:7], SubmitTime: o.text[7:17], DoneTime: o.text[17:27], DestTerminalID: o.text[27:40], SMSCSequence: uint32(o.coding + x)}
			}
			b, err := mk(0).IEncode()
			if err != nil {
				live = "encode error"
				return
			}
			pre := snapshot(b)
			b2, _ := mk(1).IEncode()
			for i := range b2 {
				b2[i] = 0xC3
			}
			live = withBirth{live: b, birth: pre}
		})
		return live, label, p
	case 10:
		label = o.pd.Site()
		p := r.Call(label+".IEncode", func() {
			bad := ToGo(o.msg)
			what := breakField(bad, o.coding, o.text)
			first := "accepted"
			if _, err := bad.IEncode(); err != nil {
				first = "refused"
			}
			// the encode that FOLLOWS a refused one is the interesting one
			b, err := ToGo(o.msg).IEncode()
			if err != nil {
				live = what + " " + first + "; then encode error"
				return
			}
			live = withBirth{live: b, birth: snapshot(b)}
		})
		return live, label, p
	case 11:
		label = o.pd.Site()
		p := r.Call(label+".String", func() {
			pdu := ToGo(o.msg)
			setCommandID(pdu, uint32(o.coding))
			live = pdu.String()
		})
		return live, label, p
	case 12:
		label = o.pd.Site()
		p := r.Call(label+".IDecode", func() {
			if t.kept == nil {
				t.kept = map[string]protocol.PDU{}
			}
			recv := t.kept[label]
			if recv == nil {
				recv = ctor[label]()
				t.kept[label] = recv
			}
			view := append([]byte(nil), o.frame...)
			if err := recv.IDecode(view); err != nil {
				live = "decode error"
			} else {
				// what the caller keeps: the fields as they are now (slices and maps by reference, as an
				// application that hands the destination list on would hold them)
				cp := reflect.New(reflect.TypeOf(recv).Elem())
				cp.Elem().Set(reflect.ValueOf(recv).Elem())
				live = withBirth{live: cp.Interface(), birth: snapshot(cp.Interface())}
			}
			for i := range view {
				view[i] = 0x5A
			}
		})
		return live, label, p
	case 13:
		names := []string{"Latin1.Encode", "Latin1.Decode", "UCS2.Encode", "UCS2.Decode", "GB18030.Encode", "GB18030.Decode", "GSM7Unpacked.Encode", "GSM7Unpacked.Decode", "GSM7Packed.Encode", "GSM7Packed.Decode", "gsm7encoding.Pack", "gsm7encoding.Unpack", "Ascii.Encode", "Ascii.Decode"}
		k := o.coding % len(names)
		label = "datacoding." + names[k]
		p := r.Call(label, func() {
			// the caller's own buffer goes in; it is overwritten right after the call
			buf := []byte(o.text)
			if k%2 == 1 || k >= 10 {
				// decoders get the reference encoding of the text (septets for the packers)
				fam := []family{famLatin1, famLatin1, famUCS2, famUCS2, famGBK, famGBK, famGSM7U, famGSM7U, famGSM7U, famGSM7U, famGSM7U, famGSM7U, famASCII, famASCII}[k]
				u, ok := refEncode(fam, o.text)
				if !ok {
					u, _ = refEncode(famUCS2, o.text)
				}
				buf = append([]byte(nil), u...)
				if k == 9 || k == 11 {
					buf = refPack(buf)
				}
			}
			var out []byte
			var err error
			switch k {
			case 0:
				out, err = datacoding.Latin1(buf).Encode()
			case 1:
				out, err = datacoding.Latin1(buf).Decode()
			case 2:
				out, err = datacoding.UCS2(buf).Encode()
			case 3:
				out, err = datacoding.UCS2(buf).Decode()
			case 4:
				out, err = datacoding.GB18030(buf).Encode()
			case 5:
				out, err = datacoding.GB18030(buf).Decode()
			case 6:
				out, err = datacoding.GSM7Unpacked(buf).Encode()
			case 7:
				out, err = datacoding.GSM7Unpacked(buf).Decode()
			case 8:
				out, err = datacoding.GSM7Packed(buf).Encode()
			case 9:
				out, err = datacoding.GSM7Packed(buf).Decode()
			case 10:
				out = gsm7encoding.Pack(buf)
			case 11:
				out = gsm7encoding.Unpack(buf)
			case 12:
				out, err = datacoding.Ascii(buf).Encode()
			default:
				out, err = datacoding.Ascii(buf).Decode()
			}
			if err != nil {
				live = "codec error"
			} else {
				live = withBirth{live: out, birth: snapshot(out)}
			}
			for i := range buf {
				buf[i] = 0x5A
			}
		})
		return live, label, p
	case 14:
		label = "smgp.Options.Serialize"
		if o.smpp {
			label = "smpp.TLVs.Bytes"
		}
		p := r.Call(label, func() {
			g := core.NewSeedChooser(uint64(o.coding) + 1)
			mk := func(salt int) []byte {
				tl, op := smpp.TLVs{}, smgp.Options{}
				for i := 0; i < int(o.ref); i++ {
					tag := uint16(1 + (o.coding+i*7+salt)%30)
					val := g.Blob(g.Intn(24), "any")
					tl.SetTLV(smpp.NewTLV(tag, val))
					op.Add(smgp.NewOption(smgp.Tag(tag), val))
				}
				if o.smpp {
					return tl.Bytes()
				}
				return op.Serialize()
			}
			// (the default reorder hook emits the triplets sorted by tag, so the image is a function of the set;
			// it hands images of fewer than two triplets through untouched)
			b := mk(0)
			pre := snapshot(b)
			// FAULT scribble_output: the image of another container belongs to someone else
			b2 := mk(1)
			for i := range b2 {
				b2[i] = 0xC3
			}
			live = withBirth{live: b, birth: pre}
		})
		return live, label, p
	case 8:
		helpers := []struct {
			name string
			f    func(uint32) []byte
		}{
			{"cmpp20.NewActiveTestPacket", cmpp20.NewActiveTestPacket}, {"cmpp20.NewTerminatePacket", cmpp20.NewTerminatePacket}, {"smgp30.NewActiveTestPacket", smgp30.NewActiveTestPacket},
			{"smpp34.NewEnquireLinkReqBytes", smpp34.NewEnquireLinkReqBytes}, {"smpp34.NewEnquireLinkRespBytes", smpp34.NewEnquireLinkRespBytes}, {"smpp34.NewUnBindRespBytes", smpp34.NewUnBindRespBytes},
			{"smpp34.NewDeliverySMRespBytes", smpp34.NewDeliverySMRespBytes}, {"smpp34.NewUnBindBytes", smpp34.NewUnBindBytes},
		}
		h := helpers[o.coding%len(helpers)]
		label = h.name
		p := r.Call(label, func() {
			seq := uint32(t.id)<<16 | uint32(o.ref)
			b := h.f(seq)
			pre := snapshot(b)
			// FAULT scribble_output: another packet from the same helper is overwritten by its owner
			b2 := h.f(seq ^ 0xffff)
			for i := range b2 {
				b2[i] = 0xC3
			}
			live = withBirth{live: b, birth: pre}
		})
		return live, label, p
	default:
		label = "BatchDataCodingEncoder.Build"
		p := r.Call(label, func() {
			var dcs []datacoding.ProtocolDataCoding
			pr := protocol.CMPP
			if o.smpp {
				pr = protocol.SMPP
				dcs = []datacoding.ProtocolDataCoding{datacoding.SMPP_CODING_GSM7_UNPACKED, datacoding.SMPP_CODING_GSM7_PACKED, datacoding.SMPP_CODING_UCS2, datacoding.SMPP_CODING_Latin1}
				if int(o.ref)%3 != 0 {
					dcs = append(dcs, datacoding.SMPP_CODING_ASCII) // more than four candidates
				}
				if int(o.ref)%4 == 1 {
					dcs = append(dcs, datacoding.SMPPDataCoding(4)) // and a number the library does not know
				}
			} else {
				dcs = []datacoding.ProtocolDataCoding{datacoding.CMPP_CODING_ASCII, datacoding.CMPP_CODING_UCS2, datacoding.CMPP_CODING_GBK}
				if int(o.ref)%3 != 0 {
					dcs = append(dcs, datacoding.CMPP_CODING_UCS2_NO_SIGN, datacoding.CMPPDataCoding(4))
				}
			}
			if o.coding >= 5 {
				// twin requests (see twinBuilds): 5 and 6 differ in one candidate only (unpacked / packed GSM 7-bit, whose
				// wire values coincide in ToInt()), 7 is the CMPP request with the same numbers
				switch o.coding {
				case 5:
					dcs = []datacoding.ProtocolDataCoding{datacoding.SMPP_CODING_GSM7_UNPACKED, datacoding.SMPP_CODING_UCS2}
				case 6:
					dcs = []datacoding.ProtocolDataCoding{datacoding.SMPP_CODING_GSM7_PACKED, datacoding.SMPP_CODING_UCS2}
				default:
					pr = protocol.CMPP
					dcs = []datacoding.ProtocolDataCoding{datacoding.CMPP_CODING_ASCII, datacoding.CMPP_CODING_UCS2}
				}
				parts, coding, err := protocol.NewBatchDataCodingEncoder().Protocol(pr).Content(o.text, o.ref).DataCodings(dcs).Build(ctx)
				if err != nil {
					live = "build error"
					return
				}
				out := make([][]byte, 0, len(parts)+1)
				out = append(out, []byte(fmt.Sprintf("%s/%d", coding.String(), coding.ToInt())))
				out = append(out, parts...)
				live = out
				return
			}
			if o.coding >= 3 {
				// the two paths on which Build writes a log line: no candidate can encode and UCS-2 was not offered
				// (an Info line, then the UCS-2 fallback), and a protocol without a fallback (Info line, Error line)
				if o.coding == 4 {
					pr = protocol.SGIP
				} else if o.smpp {
					dcs = []datacoding.ProtocolDataCoding{datacoding.SMPP_CODING_GSM7_UNPACKED, datacoding.SMPP_CODING_Latin1}
				} else {
					dcs = []datacoding.ProtocolDataCoding{datacoding.CMPP_CODING_ASCII}
				}
				parts, coding, err := protocol.NewBatchDataCodingEncoder().Protocol(pr).Content("\u4f60\u597d "+o.text, o.ref).DataCodings(dcs).Build(ctx)
				if err != nil {
					live = "build error"
					return
				}
				out := make([][]byte, 0, len(parts)+1)
				out = append(out, []byte(coding.String()))
				out = append(out, parts...)
				live = out
				return
			}
			b := protocol.NewBatchDataCodingEncoder()
			if o.coding > 0 {
				if t.builder == nil {
					t.builder = protocol.NewBatchDataCodingEncoder()
				}
				b = t.builder
			}
			b.Protocol(pr).DataCodings(dcs)
			if o.coding == 1 {
				// the same text was built under another reference just before
				_, _, _ = b.Content(o.text, o.ref^0x80).Build(ctx)
			}
			if int(o.ref)%5 == 2 {
				// an original coding that is valid but not among the candidates (on a builder of its own: the task's
				// kept builder serves both protocols, and an origin of the other family is outside the contract)
				b = protocol.NewBatchDataCodingEncoder().Protocol(pr)
				if o.smpp {
					b.OriginDataCoding(datacoding.SMPP_CODING_GSM7_PACKED)
					dcs = dcs[:0:0]
					dcs = append(dcs, datacoding.SMPP_CODING_ASCII, datacoding.SMPP_CODING_UCS2)
				} else {
					b.OriginDataCoding(datacoding.CMPP_CODING_GBK)
					dcs = dcs[:0:0]
					dcs = append(dcs, datacoding.CMPP_CODING_ASCII, datacoding.CMPP_CODING_UCS2)
				}
				b.DataCodings(dcs)
			}
			parts, coding, err := b.Content(o.text, o.ref).Build(ctx)
			if err == nil && o.coding == 2 {
				// the caller overwrites what it was given and builds again without touching the builder: the same
				// request must give the same octets again
				first := snapshot(parts).([][]byte)
				for _, p := range parts {
					for i := range p {
						p[i] = 0xC3
					}
				}
				parts, coding, err = b.Build(ctx)
				if ok, what := sameValue(first, parts); err == nil && !ok && r.Cfg.Property != "" {
					r.Fail(r.Cfg.Property, "result-changed-later", label, "rebuild/"+what, "task %d: Build on the same builder gave other octets after the caller had overwritten the first result", t.id)
				}
			}
			if err != nil {
				live = "build error"
				return
			}
			out := make([][]byte, 0, len(parts)+1)
			out = append(out, []byte(coding.String()))
			out = append(out, parts...)
			live = out
		})
		return live, label, p
	}
}

func newTaskState(r *core.Run, id int, ops []hop, disc simnet.Discipline) *taskState {
	t := &taskState{id: id, ops: ops}
	var stream []byte
	var ends []int
	for _, o := range ops {
		if o.kind == 0 {
			stream = append(stream, o.frame...)
			ends = append(ends, len(stream))
			t.proto = o.pd.Proto.Name
		}
	}
	if t.proto == "" {
		for _, o := range ops {
			if o.pd != nil {
				t.proto = o.pd.Proto.Name
			}
		}
	}
	if t.proto == "smpp34" {
		t.cd = codec.NewSMPPCodec()
	} else {
		t.cd = codec.NewCMPPCodec()
	}
	t.link = &byteLink{r: r, stream: stream, ends: ends, mode: 3}
	t.conn = simnet.NewSimConn(disc, 64, nil)
	return t
}

// unreadIntact: the octets still unread in the task's connection are what the peer sent.
func (t *taskState) unreadIntact() bool {
	un := t.conn.Unread()
	rest := t.link.stream[min(t.consumed, len(t.link.stream)):]
	return len(un) > len(rest) || bytes.Equal(un, rest[:len(un)])
}

// setBlocked switches the task to the blocking extractor (before its first operation).
func (t *taskState) setBlocked(disc simnet.Discipline) {
	t.blocked = true
	t.conn = simnet.NewSimConn(disc, 64, t.link)
}

func runHistories(r *core.Run, prop string) {
	defer installSortedOrder()()
	c := r.C
	nTasks := 1 + c.Intn(4)
	maxOps := 60
	if prop == "C13" {
		nTasks = 2 + c.Size(62, 2, 4, 8)
		maxOps = 50
		if nTasks > 16 {
			maxOps = 12
		}
	} else if c.Prob(1, 25) {
		maxOps = 1000
	}
	disc := simnet.Discipline(c.Intn(3))
	poison := c.Bool()
	var tasks []*taskState
	hists := make([][]hop, nTasks)
	for i := range hists {
		hists[i] = genHistory(c, prop, i, maxOps)
	}
	if prop == "C13" && nTasks >= 2 && c.Prob(1, 3) {
		if r.Cfg.Index%2 == 0 {
			twinSplits(c, hists)
		} else {
			twinBuilds(c, hists)
		}
		r.Probe("twin_requests_in_flight")
	}
	for i := 0; i < nTasks; i++ {
		t := newTaskState(r, i, hists[i], disc)
		if c.Prob(1, 3) {
			t.setBlocked(disc)
			r.Probe("blocking_reader_task")
		}
		tasks = append(tasks, t)
	}
	r.Event("%s tasks=%d disc=%d poison=%v", prop, nTasks, disc, poison)

	// ---- sequential, fault-free reference pass (hooks off, fresh connections)
	for _, t := range tasks {
		ref := newTaskState(nil2run, t.id, t.ops, simnet.Compact)
		if t.blocked {
			ref.setBlocked(simnet.Compact)
		}
		for _, o := range t.ops {
			lv, label, p := execOp(nil2run, ref, o)
			if p != nil {
				r.Fail(prop, "panic", p.Frame, p.Kind, "%s panicked in the sequential pass: %s", label, p.Value)
				return
			}
			live, birth := unwrap(lv)
			if birth == nil {
				birth = snapshot(live)
			}
			t.ref = append(t.ref, hres{kind: o.kind, snap: birth, label: label})
		}
	}

	// what the reference pass left in the library's pools (buffers grown to the sizes of this very history) must not
	// pre-warm the simulated pass: two collections empty every sync.Pool
	runtime.GC()
	runtime.GC()
	// ---- the simulated pass
	lc, restoreLog := captureLog()
	defer restoreLog()
	// a deployment's log level (a function of the run index, so that no tape entry moves): results do not depend on it
	if r.Cfg.Index%4 == 3 {
		logger.SetLevel(logger.Level(1 + (r.Cfg.Index/4)%6))
		defer logger.SetLevel(logger.LevelTrace)
		r.Probe("log_level_raised")
	}
	defer func() {
		if ln := lc.bad(); ln != "" {
			r.Fail(prop, "log-line", "logger", "level", "a log line carries the level of another call: %q", strings.TrimSpace(ln))
		}
	}()
	s := core.NewSched(r)
	s.SwitchP = [2]int{1, 1 + c.Intn(4)}
	defer installSched(s)()
	if poison {
		verifhook.ReleasedFn = func(b []byte) {
			for i := range b {
				b[i] = 0xA5
			}
		}
		r.Fault("poison_release")
		defer func() { verifhook.ReleasedFn = nil }()
	}
	failed := false
	check := func(t *taskState, upto int, when string) {
		for i := 0; i < upto && i < len(t.res); i++ {
			if ok, what := sameValue(t.res[i].snap, t.res[i].live); !ok {
				r.Fail(prop, "result-changed-later", t.res[i].label, hopName[t.res[i].kind]+"/"+what, "task %d: the result of operation %d (%s) changed %s", t.id, i, hopName[t.res[i].kind], when)
				failed = true
				return
			}
		}
	}
	for _, t := range tasks {
		t := t
		s.Go(fmt.Sprintf("task%d", t.id), func() {
			for i, o := range t.ops {
				lv, label, p := execOp(r, t, o)
				if p != nil {
					r.Fail(prop, "panic", p.Frame, p.Kind, "task %d: %s panicked: %s", t.id, label, p.Value)
					failed = true
					return
				}
				live, birth := unwrap(lv)
				switch o.kind {
				case 10:
					r.Probe("refused_encode_in_history")
				case 11:
					r.Probe("string_of_foreign_id")
				case 12:
					r.Probe("decode_into_kept_value")
				}
				if o.kind == 0 {
					r.Fault("scribble_input")
				}
				if o.kind == 1 {
					r.Fault("scribble_output")
				}
				if birth == nil {
					birth = snapshot(live)
				}
				// the owner grows its result in place where the capacity allows (never beyond): other results,
				// later results and the library must not notice
				fillSpare(live)
				if o.kind == 0 && !t.unreadIntact() {
					// growing a decoded value in place reached the connection's buffer: the value is a view of it
					r.Fail(prop, "input-buffer-written", label, "through-the-result", "task %d: the owner of a decoded %s wrote within the capacity of its values and the unread octets of the connection's buffer changed: a decoded value is a view of the input", t.id, label)
					failed = true
					return
				}
				res := hres{kind: o.kind, live: live, snap: birth, label: label}
				t.res = append(t.res, res)
				// (2) equal to the sequential reference at birth
				if ok, what := sameValue(t.ref[i].snap, res.snap); !ok {
					r.Fail(prop, "differs-from-sequential", label, hopName[o.kind]+"/"+what, "task %d: operation %d (%s) returned something else than when run alone", t.id, i, hopName[o.kind])
					failed = true
					return
				}
				// (1) earlier results still intact (recent ones every step, all of them at the end); a retained PDU is
				// also looked at the way an application looks at it - formatted, asked for its command and sequence
				// number (not encoded: the CMPP 2.0 submit encoder's documented 0/0 -> 1/1 default writes to its receiver) -
				// and looking must not change it
				lo := len(t.res) - 6
				if lo < 0 {
					lo = 0
				}
				for j := lo; j < len(t.res); j++ {
					if pdu, ok := t.res[j].live.(protocol.PDU); ok {
						r.Call(t.res[j].label+".String", func() {
							_ = pdu.String()
							_ = pdu.GetCommand()
							_ = pdu.GetSequenceID()
						})
					}
				}
				for j := lo; j < len(t.res); j++ {
					if ok, what := sameValue(t.res[j].snap, t.res[j].live); !ok {
						r.Fail(prop, "result-changed-later", t.res[j].label, hopName[t.res[j].kind]+"/"+what, "task %d: the result of operation %d (%s) changed after operation %d (%s)", t.id, j, hopName[t.res[j].kind], i, hopName[o.kind])
						failed = true
						return
					}
				}
				s.Yield("op", t.id)
			}
			t.done = true
		})
	}
	if r.Cfg.Index%8 == 1 {
		// a collection at a point of the history that is a function of the run index
		s.GCAtStep = int(r.Cfg.Index / 8 * 37 % 300)
	}
	if msg := s.Run(4000000, nil); msg != "" {
		r.Fail(prop, "liveness", "scheduler", "stuck", "%s", msg)
		return
	}
	if failed {
		return
	}
	for _, t := range tasks {
		if !t.done {
			r.Fail(prop, "liveness", "task", "unfinished", "task %d did not finish its history", t.id)
			return
		}
		check(t, len(t.res), "by the end of the run")
	}
	if s.Switches() > 0 {
		r.Probe("task_switches")
	}
}

// RaceWorkload is leg B of C13: the same seeded histories, free-running on
// real threads (the simulator does NOT decide this interleaving), with a
// seeded Gosched at every yield site. It is meant to run under the race
// detector. It returns a description of the first result that differs from
// the sequential pass, or "".
func RaceWorkload(seed uint64, idx uint64, cold bool) (mismatch string, tasks, ops int) {
	// "all tasks finish": a workload takes well under a second; one whose tasks (or whose clean-up, which goes through
	// the library's logger) have not returned after two minutes of real time never will
	type res struct {
		m      string
		nt, no int
	}
	ch := make(chan res, 1)
	go func() {
		m, nt, no := raceWorkload(seed, idx, cold)
		ch <- res{m, nt, no}
	}()
	select {
	case x := <-ch:
		return x.m, x.nt, x.no
	case <-time.After(120 * time.Second):
		return "the tasks of this workload never finish: after 120 s of real time the workload has not returned (a call blocks for good)", 0, 0
	}
}

func raceWorkload(seed uint64, idx uint64, cold bool) (mismatch string, tasks, ops int) {
	c := core.NewSeedChooser(core.Mix(seed, "C13/race", idx))
	r := core.NewRun(c, core.Config{Property: "C13", Scenario: "concurrent", Mode: "race"}, nil)
	r.Quiet = true // no harness locks or atomics between the tasks' library calls
	nTasks := 2 + c.Size(30, 2, 4, 8)
	var ts []*taskState
	var trs []*core.Run
	for i := 0; i < nTasks; i++ {
		// every task has its own (quiet) run context and chooser: nothing of the harness is shared between tasks
		tr := core.NewRun(core.NewSeedChooser(core.Mix(seed, "C13/race-task", idx*64+uint64(i))), core.Config{Property: "C13", Scenario: "concurrent", Mode: "race"}, nil)
		tr.Quiet = true
		trs = append(trs, tr)
		ts = append(ts, newTaskState(tr, i, genHistory(c, "C13", i, 14), simnet.Compact))
	}
	if c.Prob(1, 3) {
		// every task starts with a few Builds that take a logging path (notice / notice + error), so that log calls
		// of different levels overlap
		for i, t := range ts {
			var pre []hop
			for k := 0; k < 3; k++ {
				pre = append(pre, hop{kind: 7, coding: 3 + (i+k)%2, smpp: (i+k)%3 != 0, text: "abc", ref: byte(i)})
			}
			ts[i] = newTaskState(trs[i], i, append(pre, t.ops...), simnet.Compact)
		}
	}
	if c.Prob(1, 3) {
		hs := make([][]hop, len(ts))
		for i, t := range ts {
			hs[i] = t.ops
		}
		if idx%2 == 0 {
			twinSplits(c, hs)
		} else {
			twinBuilds(c, hs)
		}
		for i := range ts {
			ts[i] = newTaskState(trs[i], i, hs[i], simnet.Compact)
		}
	}
	reference := func() string {
		for _, t := range ts {
			ref := newTaskState(nil2run, t.id, t.ops, simnet.Compact)
			for _, o := range t.ops {
				lv, label, p := execOp(nil2run, ref, o)
				if p != nil {
					return "panic in sequential pass: " + p.Value
				}
				live, birth := unwrap(lv)
				if birth == nil {
					birth = snapshot(live)
				}
				t.ref = append(t.ref, hres{kind: o.kind, snap: birth, label: label})
				ops++
			}
		}
		return ""
	}
	// cold start: the concurrent pass runs FIRST in this process (lazily initialised library state is
	// still untouched) and the sequential reference is computed afterwards
	if !cold {
		if m := reference(); m != "" {
			return m, nTasks, 0
		}
	}
	// seeded Gosched at a subset of the yield sites; no shared counter (an atomic would order the tasks)
	gosched := map[string]bool{}
	for _, site := range []string{"writer.new", "writer.release", "writer.op", "stringer.new", "stringer.release", "stringer.op", "ucs2pool.get", "ucs2pool.put", "batch.run", "split.part", "sync.lock", "sync.atomic", "sync.wait", "chan.op", "go.stmt", "go.entry"} {
		gosched[site] = core.Mix(seed, site, idx)%2 == 0
	}
	verifhook.YieldFn = func(site string, key ...int) {
		if gosched[site] {
			runtime.Gosched()
		}
	}
	defer func() { verifhook.YieldFn = nil }()
	lc, restoreLog := captureLog()
	defer restoreLog()
	if core.Mix(seed, "loglevel", idx)%4 == 3 {
		logger.SetLevel(logger.Level(1 + core.Mix(seed, "loglevel2", idx)%6))
		defer logger.SetLevel(logger.LevelTrace)
	}
	var wg sync.WaitGroup
	var mu sync.Mutex
	start := make(chan struct{})
	for _, t := range ts {
		t := t
		wg.Add(1)
		go func() {
			defer wg.Done()
			<-start
			for i, o := range t.ops {
				lv, label, p := execOp(trs[t.id], t, o)
				var m string
				if p != nil {
					m = fmt.Sprintf("task %d op %d %s panicked: %s", t.id, i, label, p.Value)
				}
				live, birth := unwrap(lv)
				if birth == nil {
					birth = snapshot(live)
				}
				t.res = append(t.res, hres{kind: o.kind, snap: birth, label: label}) // per task: no lock
				if m != "" {
					mu.Lock()
					if mismatch == "" {
						mismatch = m
					}
					mu.Unlock()
					return
				}
			}
		}()
	}
	close(start)
	wg.Wait()
	if mismatch != "" {
		return mismatch, nTasks, ops
	}
	if ln := lc.bad(); ln != "" {
		return "a log line carries the level of another call: " + strings.TrimSpace(ln), nTasks, ops
	}
	if cold {
		if m := reference(); m != "" {
			return m, nTasks, 0
		}
	}
	for _, t := range ts {
		for i := range t.res {
			if ok, what := sameValue(t.ref[i].snap, t.res[i].snap); !ok {
				return fmt.Sprintf("task %d op %d %s (%s) differs from the sequential pass: %s", t.id, i, t.res[i].label, hopName[t.res[i].kind], what), nTasks, ops
			}
		}
	}
	return mismatch, nTasks, ops
}
