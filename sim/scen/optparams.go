package scen

import (
	"bytes"
	"encoding/binary"
	"fmt"
	"sort"

	"github.com/hujm2023/go-sms-protocol/packet"
	"github.com/hujm2023/go-sms-protocol/smgp"
	"github.com/hujm2023/go-sms-protocol/smgp/smgp30"
	"github.com/hujm2023/go-sms-protocol/smpp"
	"github.com/hujm2023/go-sms-protocol/smpp/smpp34"
	"github.com/hujm2023/go-sms-protocol/verifhook"

	"verif/sim/core"
	"verif/sim/spec"
)

// optparams — C16. Optional-parameter containers (SMPP TLVs, SMGP Options).
// The emission order of the triplets — Go's map order in production — is a
// simulator decision through the ReorderTriplets hook; the serialised tail
// then crosses a link that truncates or corrupts it and the receiving node
// runs both parsers of the container.

func init() {
	Register(&Scenario{
		Pools: true,
		Name:  "optparams",
		Props: []string{"C16"},
		Plan:  simple(150000, 8000000),
		Run:   runOptParams,
		Real:  []string{"smpp.NewTLV / TLVs.SetTLV / TLVs.Bytes / ReadTLVs / ReadTLVs1", "smgp.NewOption / Options.Add / Serialize / Len / ParseOptions / ReadOptions / TP_udhi", "IEncode / IDecode of smpp34.SubmitSm, DeliverSm, BindResp and smgp30.Submit, Deliver"},
		Stub:  []string{"triplet-set generator", "emission-order chooser behind verifhook.ReorderTriplets", "link with truncate / subst faults on the tail", "model triplet parser"},
		Rule:  "sets of 0..32 distinct tags with value lengths concentrated on 0, 1, 255, 256, 65531 (oversize: 65532, 65535, 65536, 70000), every serialisation emitted in a tape-chosen order; well-formed triplet sequences with duplicates for parser agreement; truncated / corrupted tails for the no-fabrication clause. Non-trivial = an emission order other than sorted was chosen, or a tail fault fired, or an edge length was used; distinct = distinct event-log hash",
	})
}

// splitTriplets cuts a serialised tail into triplets, trusting the length
// fields; ok=false when the tail is not a sequence of complete triplets.
func splitTriplets(b []byte) (ts []spec.Triplet, ok bool) {
	for off := 0; off < len(b); {
		if off+4 > len(b) {
			return ts, false
		}
		tag := binary.BigEndian.Uint16(b[off:])
		l := int(binary.BigEndian.Uint16(b[off+2:]))
		off += 4
		if off+l > len(b) {
			return ts, false
		}
		ts = append(ts, spec.Triplet{Tag: tag, Val: b[off : off+l]})
		off += l
	}
	return ts, true
}

func joinTriplets(ts []spec.Triplet) []byte {
	var b []byte
	for _, t := range ts {
		b = binary.BigEndian.AppendUint16(b, t.Tag)
		b = binary.BigEndian.AppendUint16(b, uint16(len(t.Val)))
		b = append(b, t.Val...)
	}
	return b
}

// installReorder makes the emission order of every container serialisation of
// this run a tape decision (and thereby replayable).
func installReorder(r *core.Run) func() {
	verifhook.ReorderTripletsFn = func(b []byte) []byte {
		ts, ok := splitTriplets(b)
		if !ok || len(ts) < 2 {
			return b
		}
		// canonical order first (Go's map order must not leak into the run) …
		sort.SliceStable(ts, func(i, j int) bool {
			if ts[i].Tag != ts[j].Tag {
				return ts[i].Tag < ts[j].Tag
			}
			return bytes.Compare(ts[i].Val, ts[j].Val) < 0
		})
		// … then the order the tape chooses (Fisher-Yates; all zeros = sorted)
		moved := false
		for i := 0; i < len(ts)-1; i++ {
			j := i + r.C.Intn(len(ts)-i)
			if j != i {
				ts[i], ts[j] = ts[j], ts[i]
				moved = true
			}
		}
		if moved {
			r.Fault("emission_order")
		}
		// written back into the library's own buffer (same triplets, same length): what the caller receives is
		// the memory the library chose to return, so its ownership stays observable
		copy(b, joinTriplets(ts))
		return b
	}
	return func() { verifhook.ReorderTripletsFn = canonicalTriplets }
}

// canonicalTriplets is the default hook of every other scenario: triplets are
// emitted sorted by tag, so that Go's map order never leaks into a run.
func canonicalTriplets(b []byte) []byte {
	ts, ok := splitTriplets(b)
	if !ok || len(ts) < 2 {
		return b
	}
	sort.SliceStable(ts, func(i, j int) bool { return ts[i].Tag < ts[j].Tag })
	copy(b, joinTriplets(ts)) // in place: see installReorder
	return b
}

func init() { verifhook.ReorderTripletsFn = canonicalTriplets }

func lastWins(ts []spec.Triplet) map[uint16][]byte {
	m := map[uint16][]byte{}
	for _, t := range ts {
		m[t.Tag] = t.Val
	}
	return m
}

func tlvSet(t smpp.TLVs) map[uint16][]byte {
	m := map[uint16][]byte{}
	for k, v := range t {
		m[k] = v.Value()
	}
	return m
}

func optSet(o smgp.Options) map[uint16][]byte {
	m := map[uint16][]byte{}
	for k, v := range o {
		m[uint16(k)] = v.Value()
	}
	return m
}

func setDiff(a, b map[uint16][]byte) string {
	for k, v := range a {
		w, ok := b[k]
		if !ok {
			return fmt.Sprintf("tag %#x missing", k)
		}
		if !bytes.Equal(v, w) {
			return fmt.Sprintf("tag %#x value differs (%d vs %d octets)", k, len(v), len(w))
		}
	}
	for k := range b {
		if _, ok := a[k]; !ok {
			return fmt.Sprintf("tag %#x extra", k)
		}
	}
	return ""
}

// bigMax is the largest value length genTripletSet produces: 65535 (the 16-bit
// maximum) at container level, 65531 inside PDUs.
var bigMax = 65535

func genTripletSet(c *core.Chooser, distinct bool, big bool) []spec.Triplet {
	n := c.Size(32, 0, 1, 2)
	emptyish := c.Prob(1, 8) // marker parameters: (almost) all values empty
	if emptyish && n < 5 {
		n = 5 + c.Intn(20)
	}
	used := map[uint16]bool{}
	var ts []spec.Triplet
	for i := 0; i < n; i++ {
		var tag uint16
		switch c.Pick(3, 2, 2, 3) {
		case 0:
			tag = uint16(1 + c.Intn(18))
		case 1:
			tag = []uint16{0, 1, 2, 0x00ff, 0x0100, 0x0204, 0x0424, 0x1400, 0x7fff, 0x8000, 0xffff}[c.Intn(11)]
		case 3:
			tag = spec.StdTags[c.Intn(len(spec.StdTags))] // tags the standard defines: a parser may know them
		default:
			tag = uint16(c.Uint64())
		}
		if distinct && used[tag] {
			continue
		}
		used[tag] = true
		max := 12
		if big && c.Prob(1, 6) {
			max = bigMax
		}
		l := c.Size(max, 0, 1, 255, 256, 65531, 65534)
		if emptyish && !c.Prob(1, 8) {
			l = 0
		}
		ts = append(ts, spec.Triplet{Tag: tag, Val: spec.EdgeValue(c, c.Blob(l, "any"))})
	}
	return ts
}

func runOptParams(r *core.Run) {
	c := r.C
	defer installReorder(r)()
	switch c.Pick(4, 3, 4, 2, 2, 3, 2) {
	case 6:
		optParseAddParse(r)
	case 0:
		optRoundTrip(r)
	case 1:
		optParserAgreement(r)
	case 2:
		optNoFabrication(r)
	case 3:
		optOversize(r)
	case 4:
		optAddAndAccessors(r)
	default:
		optThroughPDU(r)
	}
}

// (a) parse(serialise(S)) == S for every emission order, both parsers.
func optRoundTrip(r *core.Run) {
	c := r.C
	ts := genTripletSet(c, true, true)
	want := lastWins(ts)
	r.Event("roundtrip set of %d params", len(ts))
	for _, t := range ts {
		if len(t.Val) >= 65000 {
			r.Probe("value_at_16bit_edge")
		}
	}
	// SMPP
	var tl smpp.TLVs
	var ser []byte
	if p := r.Call("smpp.TLVs.Bytes", func() {
		for _, t := range ts {
			tl.SetTLV(smpp.NewTLV(t.Tag, t.Val))
		}
		ser = tl.Bytes()
	}); p != nil {
		r.Fail("C16", "panic", p.Frame, p.Kind, "serialising %d TLVs: %s", len(ts), p.Value)
		return
	}
	got, ok := splitTriplets(ser)
	if !ok {
		r.Fail("C16", "serialise", "smpp.TLVs.Bytes", "malformed", "output is not a sequence of complete triplets (%d octets)", len(ser))
		return
	}
	if d := setDiff(want, lastWins(got)); d != "" || len(got) != len(want) {
		r.Fail("C16", "serialise", "smpp.TLVs.Bytes", "set", "serialised set differs from the container: %s (%d vs %d triplets)", d, len(got), len(want))
		return
	}
	for name, parse := range map[string]func([]byte) (smpp.TLVs, error){
		"smpp.ReadTLVs":  func(b []byte) (smpp.TLVs, error) { return smpp.ReadTLVs(packet.NewPacketReader(b)) },
		"smpp.ReadTLVs1": func(b []byte) (smpp.TLVs, error) { return smpp.ReadTLVs1(packet.NewPacketReader(b)), nil },
	} {
		var back smpp.TLVs
		var err error
		if p := r.Call(name, func() { back, err = parse(append([]byte(nil), ser...)) }); p != nil {
			r.Fail("C16", "panic", p.Frame, p.Kind, "%s: %s", name, p.Value)
			continue
		}
		if err != nil {
			r.Fail("C16", "roundtrip", name, "error", "parsing the container's own serialisation failed: %v", err)
			continue
		}
		if d := setDiff(want, tlvSet(back)); d != "" {
			r.Fail("C16", "roundtrip", name, "set", "parse(serialise(S)) != S: %s", d)
			continue
		}
		// a parsed set is logged: rendering is an observer and copes with every value a parser accepts
		// (sets of tens of kilobytes only now and then: rendering them costs more than everything else here)
		if len(ser) > 2048 && r.Cfg.Index%8 != 0 {
			continue
		}
		if p := r.Call("smpp.TLVs.String", func() {
			_ = back.String()
			for _, t := range back {
				_ = t.String()
			}
		}); p != nil {
			r.Fail("C16", "panic", p.Frame, "String/"+p.Kind, "rendering a set parsed by %s: %s", name, p.Value)
		} else if d := setDiff(want, tlvSet(back)); d != "" {
			r.Fail("C16", "roundtrip", "smpp.TLVs.String", "set-changed", "rendering changed the parsed set: %s", d)
		}
	}
	// SMGP
	var op smgp.Options
	var oser []byte
	var olen int
	if p := r.Call("smgp.Options.Serialize", func() {
		for _, t := range ts {
			op.Add(smgp.NewOption(smgp.Tag(t.Tag), t.Val))
		}
		oser = op.Serialize()
		olen = op.Len()
	}); p != nil {
		r.Fail("C16", "panic", p.Frame, p.Kind, "serialising %d options: %s", len(ts), p.Value)
		return
	}
	if olen != len(oser) {
		r.Fail("C16", "len", "smgp.Options.Len", "well-formed", "Len()=%d but Serialize() produced %d octets", olen, len(oser))
	}
	ogot, ok := splitTriplets(oser)
	if !ok || setDiff(want, lastWins(ogot)) != "" || len(ogot) != len(want) {
		r.Fail("C16", "serialise", "smgp.Options.Serialize", "set", "serialised set differs from the container (%d triplets, wellformed=%v)", len(ogot), ok)
		return
	}
	var b1, b2 smgp.Options
	var e1 error
	if p := r.Call("smgp.ParseOptions", func() { b1, e1 = smgp.ParseOptions(append([]byte(nil), oser...)) }); p != nil {
		r.Fail("C16", "panic", p.Frame, p.Kind, "ParseOptions: %s", p.Value)
	} else if e1 != nil {
		r.Fail("C16", "roundtrip", "smgp.ParseOptions", "error", "parsing the container's own serialisation failed: %v", e1)
	} else if d := setDiff(want, optSet(b1)); d != "" {
		r.Fail("C16", "roundtrip", "smgp.ParseOptions", "set", "parse(serialise(S)) != S: %s", d)
	} else if len(oser) > 2048 && r.Cfg.Index%8 != 0 {
		// rendered only now and then
	} else if p := r.Call("smgp.Options.String", func() {
		_ = b1.String()
		for _, o := range b1 {
			_ = o.String()
		}
	}); p != nil {
		r.Fail("C16", "panic", p.Frame, "String/"+p.Kind, "rendering a set parsed by ParseOptions: %s", p.Value)
	} else if d := setDiff(want, optSet(b1)); d != "" {
		r.Fail("C16", "roundtrip", "smgp.Options.String", "set-changed", "rendering changed the parsed set: %s", d)
	}
	rd := packet.NewPacketReader(append([]byte(nil), oser...))
	if p := r.Call("smgp.ReadOptions", func() { b2 = smgp.ReadOptions(rd) }); p != nil {
		r.Fail("C16", "panic", p.Frame, p.Kind, "ReadOptions: %s", p.Value)
	} else if rd.Error() != nil {
		r.Fail("C16", "roundtrip", "smgp.ReadOptions", "error", "parsing the container's own serialisation failed: %v", rd.Error())
	} else if d := setDiff(want, optSet(b2)); d != "" {
		r.Fail("C16", "roundtrip", "smgp.ReadOptions", "set", "parse(serialise(S)) != S: %s", d)
	}
	// the caller owns what a parser gave it: it overwrites every value it received, then the same octets are parsed
	// again (by every entry point) and must still yield the set
	scrib := func(vals [][]byte) {
		for _, b := range vals {
			for i := range b {
				b[i] ^= 0xff
			}
		}
	}
	if pp := r.Call("parse, owner writes, parse again", func() {
		var vs [][]byte
		a, _ := smpp.ReadTLVs(packet.NewPacketReader(append([]byte(nil), ser...)))
		for _, v := range a {
			vs = append(vs, v.Value())
		}
		for _, v := range smpp.ReadTLVs1(packet.NewPacketReader(append([]byte(nil), ser...))) {
			vs = append(vs, v.Value())
		}
		o1, _ := smgp.ParseOptions(append([]byte(nil), oser...))
		for _, v := range o1 {
			vs = append(vs, v.Value())
		}
		for _, v := range smgp.ReadOptions(packet.NewPacketReader(append([]byte(nil), oser...))) {
			vs = append(vs, v.Value())
		}
		// first the owner only grows its values in place (writes between len and cap): the other values of the same
		// parse must not move
		for _, b := range vs {
			sp := b[len(b):cap(b)]
			for i := range sp {
				sp[i] = 0xEE
			}
		}
		if d := setDiff(want, tlvSet(a)); d != "" {
			r.Fail("C16", "roundtrip", "smpp.ReadTLVs", "after-owner-grew", "values of one parse share spare capacity: %s", d)
		}
		if d := setDiff(want, optSet(o1)); d != "" {
			r.Fail("C16", "roundtrip", "smgp.ParseOptions", "after-owner-grew", "values of one parse share spare capacity: %s", d)
		}
		scrib(vs)
		r.Probe("parsed_values_overwritten_by_their_owner")
		a2, _ := smpp.ReadTLVs(packet.NewPacketReader(append([]byte(nil), ser...)))
		if d := setDiff(want, tlvSet(a2)); d != "" {
			r.Fail("C16", "roundtrip", "smpp.ReadTLVs", "after-owner-wrote", "after the owner of earlier parse results overwrote them, parsing the same octets gives another set: %s", d)
		}
		if d := setDiff(want, tlvSet(smpp.ReadTLVs1(packet.NewPacketReader(append([]byte(nil), ser...))))); d != "" {
			r.Fail("C16", "roundtrip", "smpp.ReadTLVs1", "after-owner-wrote", "after the owner of earlier parse results overwrote them, parsing the same octets gives another set: %s", d)
		}
		o2, _ := smgp.ParseOptions(append([]byte(nil), oser...))
		if d := setDiff(want, optSet(o2)); d != "" {
			r.Fail("C16", "roundtrip", "smgp.ParseOptions", "after-owner-wrote", "after the owner of earlier parse results overwrote them, parsing the same octets gives another set: %s", d)
		}
		if d := setDiff(want, optSet(smgp.ReadOptions(packet.NewPacketReader(append([]byte(nil), oser...))))); d != "" {
			r.Fail("C16", "roundtrip", "smgp.ReadOptions", "after-owner-wrote", "after the owner of earlier parse results overwrote them, parsing the same octets gives another set: %s", d)
		}
	}); pp != nil {
		r.Fail("C16", "panic", pp.Frame, pp.Kind, "parsing a container's own serialisation: %s", pp.Value)
		return
	}
	// the two images are kept while other containers are serialised and a PDU is encoded; parsing them afterwards
	// must still yield the set (a serialisation is the caller's from the moment it is returned)
	serSnap, oserSnap := append([]byte(nil), ser...), append([]byte(nil), oser...)
	r.Call("later serialisations", func() {
		var t2 smpp.TLVs
		var o2 smgp.Options
		for i := 0; i < 1+c.Intn(3); i++ {
			v := c.Blob(1+c.Intn(40), "any")
			t2.SetTLV(smpp.NewTLV(uint16(0x2000+i), v))
			o2.Add(smgp.NewOption(smgp.Tag(0x2000+i), v))
		}
		x, y := t2.Bytes(), o2.Serialize()
		for i := range x {
			x[i] = 0xC3
		}
		for i := range y {
			y[i] = 0xC3
		}
		_ = smpp34.NewEnquireLinkReqBytes(uint32(c.Intn(1 << 16)))
		_ = smgp30.NewActiveTestPacket(uint32(c.Intn(1 << 16)))
	})
	r.Probe("serialisation_retained")
	if !bytes.Equal(ser, serSnap) {
		r.Fail("C16", "image-changed-later", "smpp.TLVs.Bytes", "retained", "a serialisation of %d triplets changed after later serialisations / encodes", len(got))
	}
	if !bytes.Equal(oser, oserSnap) {
		r.Fail("C16", "image-changed-later", "smgp.Options.Serialize", "retained", "a serialisation of %d triplets changed after later serialisations / encodes", len(ogot))
	}
}

// (b) both parsers of a container agree on every well-formed triplet sequence.
func optParserAgreement(r *core.Run) {
	c := r.C
	ts := genTripletSet(c, false, c.Prob(1, 8))
	// force duplicates now and then
	if len(ts) >= 2 && c.Bool() {
		ts[len(ts)-1].Tag = ts[c.Intn(len(ts)-1)].Tag
		r.Probe("duplicate_tag")
	}
	seq := joinTriplets(ts)
	want := lastWins(ts)
	r.Event("agreement on %d triplets (%d octets)", len(ts), len(seq))
	var a, b smpp.TLVs
	var ea error
	if p := r.Call("smpp.ReadTLVs", func() { a, ea = smpp.ReadTLVs(packet.NewPacketReader(append([]byte(nil), seq...))) }); p != nil {
		r.Fail("C16", "panic", p.Frame, p.Kind, "ReadTLVs: %s", p.Value)
		return
	}
	if p := r.Call("smpp.ReadTLVs1", func() { b = smpp.ReadTLVs1(packet.NewPacketReader(append([]byte(nil), seq...))) }); p != nil {
		r.Fail("C16", "panic", p.Frame, p.Kind, "ReadTLVs1: %s", p.Value)
		return
	}
	if ea != nil {
		r.Fail("C16", "agreement", "smpp.ReadTLVs", "error", "well-formed sequence refused: %v", ea)
	} else if d := setDiff(tlvSet(a), tlvSet(b)); d != "" {
		r.Fail("C16", "agreement", "smpp.ReadTLVs/ReadTLVs1", "differ", "the two parsers disagree: %s", d)
	} else if d := setDiff(want, tlvSet(a)); d != "" {
		r.Fail("C16", "agreement", "smpp.ReadTLVs", "model", "parsed set differs from the sequence (last occurrence wins): %s", d)
	}
	var o1, o2 smgp.Options
	var e1 error
	if p := r.Call("smgp.ParseOptions", func() { o1, e1 = smgp.ParseOptions(append([]byte(nil), seq...)) }); p != nil {
		r.Fail("C16", "panic", p.Frame, p.Kind, "ParseOptions: %s", p.Value)
		return
	}
	rd := packet.NewPacketReader(append([]byte(nil), seq...))
	if p := r.Call("smgp.ReadOptions", func() { o2 = smgp.ReadOptions(rd) }); p != nil {
		r.Fail("C16", "panic", p.Frame, p.Kind, "ReadOptions: %s", p.Value)
		return
	}
	if e1 != nil || rd.Error() != nil {
		r.Fail("C16", "agreement", "smgp.ParseOptions/ReadOptions", "error", "well-formed sequence refused: %v / %v", e1, rd.Error())
	} else if d := setDiff(optSet(o1), optSet(o2)); d != "" {
		r.Fail("C16", "agreement", "smgp.ParseOptions/ReadOptions", "differ", "the two parsers disagree: %s", d)
	} else if d := setDiff(want, optSet(o1)); d != "" {
		r.Fail("C16", "agreement", "smgp.ParseOptions", "model", "parsed set differs from the sequence (last occurrence wins): %s", d)
	}
}

// completePrefix: the triplets that are completely present, parsing from the start.
func completePrefix(b []byte) []spec.Triplet {
	var ts []spec.Triplet
	for off := 0; off+4 <= len(b); {
		tag := binary.BigEndian.Uint16(b[off:])
		l := int(binary.BigEndian.Uint16(b[off+2:]))
		if off+4+l > len(b) {
			break
		}
		ts = append(ts, spec.Triplet{Tag: tag, Val: b[off+4 : off+4+l]})
		off += 4 + l
	}
	return ts
}

// (c) no parser reports a parameter that is not completely present in the input.
func optNoFabrication(r *core.Run) {
	c := r.C
	ts := genTripletSet(c, c.Bool(), false)
	if len(ts) == 0 {
		ts = []spec.Triplet{{Tag: 2, Val: []byte{1}}}
	}
	tail := joinTriplets(ts)
	switch c.Pick(4, 3, 2, 1, 2) {
	case 4:
		// a peer that counts lengths in another way: EVERY length field is off by the same amount (the header
		// counted in, a terminator counted in, one short); a second reading of the octets must not be invented
		bias := []int{4, 2, 1, -1, 8}[c.Intn(5)]
		if len(ts) < 2 {
			ts = append(ts, spec.Triplet{Tag: uint16(1 + c.Intn(18)), Val: c.Blob(1+c.Intn(4), "any")})
		}
		if c.Bool() {
			for i := range ts {
				ts[i].Tag = uint16(1 + (int(ts[i].Tag)+i)%18) // tags the SMGP specification defines
				if len(ts[i].Val) > 40 {
					ts[i].Val = ts[i].Val[:40]
				}
			}
		}
		tail = nil
		for _, t := range ts {
			tail = binary.BigEndian.AppendUint16(tail, t.Tag)
			tail = binary.BigEndian.AppendUint16(tail, uint16(max(0, len(t.Val)+bias)))
			tail = append(tail, t.Val...)
		}
		r.Fault("biased_lengths")
	case 0:
		t := c.Intn(len(tail))
		tail = tail[:t]
		r.Fault("truncate_tail")
	case 1:
		// substitute a length octet
		off := 0
		k := c.Intn(len(ts))
		for i := 0; i < k; i++ {
			off += 4 + len(ts[i].Val)
		}
		tail = append([]byte(nil), tail...)
		tail[off+2+c.Intn(2)] = substVals[c.Intn(len(substVals))]
		r.Fault("subst_length")
	case 2:
		tail = append(append([]byte(nil), tail...), c.Blob(1+c.Intn(5), "any")...)
		r.Fault("garbage_tail")
	default:
		tail = c.Blob(c.Size(40, 0, 1, 3, 4, 5), "any")
		r.Fault("random_tail")
	}
	// the set of parameters that are completely present: every triplet of the
	// complete prefix, earlier occurrences of a tag included
	present := completePrefix(tail)
	r.Event("no-fabrication on %d octets, %d complete triplets", len(tail), len(present))
	isPresent := func(tag uint16, v []byte) bool {
		for _, t := range present {
			if t.Tag == tag && bytes.Equal(t.Val, v) {
				return true
			}
		}
		return false
	}
	check := func(name string, got map[uint16][]byte) {
		for tag, v := range got {
			if !isPresent(tag, v) {
				r.Fail("C16", "fabricated", name, "param", "%s reported tag %#x with %d octets, which is not completely present in the %d-octet input", name, tag, len(v), len(tail))
				return
			}
		}
	}
	var a smpp.TLVs
	if p := r.Call("smpp.ReadTLVs", func() { a, _ = smpp.ReadTLVs(packet.NewPacketReader(append([]byte(nil), tail...))) }); p != nil {
		r.Fail("C16", "panic", p.Frame, p.Kind, "ReadTLVs on a damaged tail: %s", p.Value)
	} else {
		check("smpp.ReadTLVs", tlvSet(a))
	}
	if p := r.Call("smpp.ReadTLVs1", func() { a = smpp.ReadTLVs1(packet.NewPacketReader(append([]byte(nil), tail...))) }); p != nil {
		r.Fail("C16", "panic", p.Frame, p.Kind, "ReadTLVs1 on a damaged tail: %s", p.Value)
	} else {
		check("smpp.ReadTLVs1", tlvSet(a))
	}
	var o smgp.Options
	if p := r.Call("smgp.ParseOptions", func() { o, _ = smgp.ParseOptions(append([]byte(nil), tail...)) }); p != nil {
		r.Fail("C16", "panic", p.Frame, p.Kind, "ParseOptions on a damaged tail: %s", p.Value)
	} else {
		check("smgp.ParseOptions", optSet(o))
		r.Call("smgp.Options.TP_udhi", func() { _ = o.TP_udhi() })
	}
	if p := r.Call("smgp.ReadOptions", func() { o = smgp.ReadOptions(packet.NewPacketReader(append([]byte(nil), tail...))) }); p != nil {
		r.Fail("C16", "panic", p.Frame, p.Kind, "ReadOptions on a damaged tail: %s", p.Value)
	} else {
		check("smgp.ReadOptions", optSet(o))
		if p := r.Call("smgp.Options.TP_udhi", func() { _ = o.TP_udhi() }); p != nil {
			r.Fail("C16", "panic", p.Frame, p.Kind, "TP_udhi: %s", p.Value)
		}
	}
}

// (d) a value too long for the 16-bit length field is refused or truncated
// consistently: no panic, and the emitted length field equals the emitted value.
func optOversize(r *core.Run) {
	c := r.C
	l := []int{65531, 65532, 65533, 65534, 65535, 65536, 65537, 70000}[c.Intn(8)]
	if c.Prob(1, 4) {
		l = c.Range(65530, 70000)
	}
	val := c.Blob(l, "any")
	tag := uint16(1 + c.Intn(0x2000))
	r.Fault("oversize_value")
	r.Event("oversize value of %d octets", l)
	// in half of the runs the oversize value has company: one or two ordinary parameters in the same set, emitted
	// before or behind it in the order the seed chooses
	company := int(r.Cfg.Index % 3)
	for _, kind := range []string{"smpp.TLV", "smgp.Option"} {
		var ser []byte
		p := r.Call(kind+".Bytes", func() {
			if kind == "smpp.TLV" {
				var t smpp.TLVs
				t.SetTLV(smpp.NewTLV(tag, val))
				for k := 0; k < company; k++ {
					t.SetTLV(smpp.NewTLV(tag+uint16(1+k), []byte{byte(k), 0x55}))
				}
				ser = t.Bytes()
			} else {
				var o smgp.Options
				o.Add(smgp.NewOption(smgp.Tag(tag), val))
				for k := 0; k < company; k++ {
					o.Add(smgp.NewOption(smgp.Tag(tag+uint16(1+k)), []byte{byte(k), 0x55}))
				}
				ser = o.Serialize()
			}
		})
		if p != nil {
			r.Fail("C16", "panic", p.Frame, p.Kind, "a %d-octet value: %s", l, p.Value)
			continue
		}
		if len(ser) == 0 {
			continue // refused
		}
		ts, ok := splitTriplets(ser)
		if ok && company > 0 {
			// the companions must be there, whole; the oversize one is looked at alone below
			var big []spec.Triplet
			seen := 0
			for _, t := range ts {
				if t.Tag == tag {
					big = append(big, t)
				} else if t.Tag > tag && t.Tag <= tag+uint16(company) && len(t.Val) == 2 && t.Val[1] == 0x55 {
					seen++
				}
			}
			if seen != company && len(big) <= 1 {
				r.Fail("C16", "oversize", kind+".Bytes", "company-lost", "a set of one %d-octet value and %d ordinary parameters serialised to %d triplets of which %d are the ordinary ones", l, company, len(ts), seen)
				continue
			}
			ts = big
			if len(ts) == 0 {
				continue // the oversize one was left out: refused
			}
		}
		if !ok || len(ts) != 1 {
			r.Fail("C16", "oversize", kind+".Bytes", "length-disagrees", "a %d-octet value serialised to %d octets that are not one complete triplet (length field disagrees with the emitted value)", l, len(ser))
			continue
		}
		if ts[0].Tag != tag || !bytes.HasPrefix(val, ts[0].Val) {
			r.Fail("C16", "oversize", kind+".Bytes", "content", "emitted triplet is not a prefix of the value")
			continue
		}
		if l <= 65535 && len(ts[0].Val) != l {
			r.Fail("C16", "oversize", kind+".Bytes", "fits-16-bit", "a %d-octet value fits the 16-bit length field but %d octets were emitted", l, len(ts[0].Val))
		}
	}
}

// (e) adding to an empty (nil) container takes effect; (f) typed accessors
// tolerate values shorter than they expect.
func optAddAndAccessors(r *core.Run) {
	c := r.C
	val := c.Blob(c.Size(4, 0, 1), "any")
	tag := smgp.Tag(1 + c.Intn(18))
	if c.Bool() {
		tag = smgp.TAG_TP_udhi
	}
	r.Probe("add_to_nil_container")
	var o smgp.Options // nil map
	var ser []byte
	var udhi uint8
	if p := r.Call("smgp.Options.Add", func() {
		o.Add(smgp.NewOption(tag, val))
		ser = o.Serialize()
		udhi = o.TP_udhi()
	}); p != nil {
		r.Fail("C16", "panic", p.Frame, p.Kind, "Add/Serialize/TP_udhi on a fresh container (value %d octets): %s", len(val), p.Value)
		return
	}
	ts, ok := splitTriplets(ser)
	if !ok || len(ts) != 1 || ts[0].Tag != uint16(tag) || !bytes.Equal(ts[0].Val, val) {
		r.Fail("C16", "add-lost", "smgp.Options.Add", "nil-map", "Add on an empty container is not visible in the serialisation (%d octets)", len(ser))
	}
	if tag == smgp.TAG_TP_udhi {
		want := uint8(0)
		if len(val) > 0 {
			want = val[0]
		}
		if udhi != want {
			r.Fail("C16", "accessor", "smgp.Options.TP_udhi", "value", "TP_udhi()=%d, parameter value %x", udhi, val)
		}
		if len(val) == 0 {
			r.Probe("tp_udhi_empty_value")
		}
	}
	var t smpp.TLVs
	if p := r.Call("smpp.TLVs.SetTLV", func() {
		t.SetTLV(smpp.NewTLVByString(uint16(tag), string(val)))
		ser = t.Bytes()
	}); p != nil {
		r.Fail("C16", "panic", p.Frame, p.Kind, "SetTLV/Bytes on a fresh container: %s", p.Value)
		return
	}
	ts, ok = splitTriplets(ser)
	if !ok || len(ts) != 1 || ts[0].Tag != uint16(tag) || !bytes.Equal(ts[0].Val, val) {
		r.Fail("C16", "add-lost", "smpp.TLVs.SetTLV", "nil-map", "SetTLV on an empty container is not visible in the serialisation")
	}
	// an EMPTY but existing container that is already attached somewhere (a PDU field, a second variable): the
	// parameter added through one handle is seen through the other - they are the same container
	r.Probe("add_to_empty_attached_container")
	et := smpp.TLVs{}
	pdu := &smpp34.SubmitSm{TLVs: et}
	eo := smgp.Options{}
	sub := &smgp30.Submit{Options: eo}
	if p := r.Call("smpp.TLVs.SetTLV", func() {
		et.SetTLV(smpp.NewTLV(uint16(tag), val))
		eo.Add(smgp.NewOption(tag, val))
	}); p != nil {
		r.Fail("C16", "panic", p.Frame, p.Kind, "adding to an empty container: %s", p.Value)
		return
	}
	if v, ok := pdu.TLVs[uint16(tag)]; !ok || !bytes.Equal(v.Value(), val) {
		r.Fail("C16", "add-lost", "smpp.TLVs.SetTLV", "empty-attached", "a parameter added to an empty container is not seen through the PDU field the container was assigned to")
	}
	if v, ok := sub.Options[tag]; !ok || !bytes.Equal(v.Value(), val) {
		r.Fail("C16", "add-lost", "smgp.Options.Add", "empty-attached", "a parameter added to an empty container is not seen through the PDU field the container was assigned to")
	}
}

// optThroughPDU: the containers inside their PDUs, emitted in a tape-chosen
// order, optionally truncated inside the tail on the link.
func optThroughPDU(r *core.Run) {
	c := r.C
	sp := Spec()
	sites := [][2]string{{"smpp34", "SubmitSm"}, {"smpp34", "DeliverSm"}, {"smpp34", "BindResp"}, {"smgp30", "Submit"}, {"smgp30", "Deliver"}}
	s := sites[c.Intn(len(sites))]
	pd := sp.Proto(s[0]).PDU(s[1])
	m := spec.Gen(c, pd, spec.GenOpt{MaxDests: 2, BinNoNul: true, NoTail: true})
	tailField := pd.Fields[len(pd.Fields)-1]
	bigMax = 65531
	ts := genTripletSet(c, true, c.Prob(1, 4))
	bigMax = 65535
	m.V(tailField.Name).T = ts
	site := pd.Site()
	pdu := ToGo(m)
	var b []byte
	var err error
	if p := r.Call(site+".IEncode", func() { b, err = pdu.IEncode() }); p != nil {
		r.Fail("C16", "panic", p.Frame, p.Kind, "%s.IEncode with %d optional parameters: %s", site, len(ts), p.Value)
		return
	}
	if err != nil {
		if site == "smgp30.Deliver" && r.IsKnown("C01", "roundtrip", "smgp30.Deliver", "field=MsgID/raw-in-hex-out") {
			// unrelated
		}
		r.Fail("C16", "encode-error", site, "with-options", "IEncode failed: %v", err)
		return
	}
	_, mand := spec.Build(m)
	cut := len(b)
	if c.Prob(1, 2) && len(b) > mand {
		cut = mand + c.Intn(len(b)-mand)
		r.Fault("truncate_tail")
	}
	r.Event("%s with %d optional parameters, %d octets, cut at %d (mandatory part %d)", site, len(ts), len(b), cut, mand)
	frame := append([]byte(nil), b[:cut]...)
	present := completePrefix(frame[min(mand, len(frame)):])
	fresh := ctor[site]()
	var derr error
	if p := r.Call(site+".IDecode", func() { derr = fresh.IDecode(frame) }); p != nil {
		r.Fail("C16", "panic", p.Frame, p.Kind, "%s.IDecode: %s", site, p.Value)
		return
	}
	if derr != nil {
		if cut == len(b) {
			r.Fail("C16", "roundtrip", site, "error", "IDecode refused the encoder's own output with %d optional parameters: %v", len(ts), derr)
		}
		return
	}
	got := FromGo(fresh, pd, true).F[tailField.Name].T
	if cut == len(b) {
		if d := setDiff(lastWins(ts), lastWins(got)); d != "" {
			r.Fail("C16", "roundtrip", site, "set", "optional parameters after encode -> decode differ: %s", d)
		}
		return
	}
	for _, g := range got {
		ok := false
		for _, t := range present {
			if t.Tag == g.Tag && bytes.Equal(t.Val, g.Val) {
				ok = true
			}
		}
		if !ok {
			r.Fail("C16", "fabricated", site, "param", "decoded tag %#x (%d octets) is not completely present in the truncated frame", g.Tag, len(g.Val))
			return
		}
	}
}

// (g) history: a container obtained from a parse is the caller's; adding to it
// must not show up in what a later parse of other bytes returns.
func optParseAddParse(r *core.Run) {
	c := r.C
	first := joinTriplets(genTripletSet(c, true, false))
	if c.Bool() {
		first = nil // an empty optional part
	}
	second := joinTriplets(genTripletSet(c, true, false))
	if c.Bool() {
		second = nil
	}
	extraTag := uint16(0x2f00 + c.Intn(16))
	extra := c.Blob(1+c.Intn(4), "any")
	r.Probe("parse_add_parse")
	r.Event("parse %d octets, add tag %#x, parse %d octets", len(first), extraTag, len(second))
	want := lastWins(completePrefix(second))
	type parser struct {
		name string
		f    func([]byte) map[uint16][]byte
	}
	parsers := []parser{
		{"smgp.ReadOptions", func(b []byte) map[uint16][]byte {
			o := smgp.ReadOptions(packet.NewPacketReader(append([]byte(nil), b...)))
			o.Add(smgp.NewOption(smgp.Tag(extraTag), extra))
			return optSet(smgp.ReadOptions(packet.NewPacketReader(append([]byte(nil), second...))))
		}},
		{"smgp.ParseOptions", func(b []byte) map[uint16][]byte {
			o, _ := smgp.ParseOptions(append([]byte(nil), b...))
			o.Add(smgp.NewOption(smgp.Tag(extraTag), extra))
			o2, _ := smgp.ParseOptions(append([]byte(nil), second...))
			return optSet(o2)
		}},
		{"smpp.ReadTLVs1", func(b []byte) map[uint16][]byte {
			t := smpp.ReadTLVs1(packet.NewPacketReader(append([]byte(nil), b...)))
			t.SetTLV(smpp.NewTLV(extraTag, extra))
			return tlvSet(smpp.ReadTLVs1(packet.NewPacketReader(append([]byte(nil), second...))))
		}},
		{"smpp.ReadTLVs", func(b []byte) map[uint16][]byte {
			t, _ := smpp.ReadTLVs(packet.NewPacketReader(append([]byte(nil), b...)))
			t.SetTLV(smpp.NewTLV(extraTag, extra))
			t2, _ := smpp.ReadTLVs(packet.NewPacketReader(append([]byte(nil), second...)))
			return tlvSet(t2)
		}},
	}
	for _, p := range parsers {
		var got map[uint16][]byte
		if pn := r.Call(p.name, func() { got = p.f(first) }); pn != nil {
			r.Fail("C16", "panic", pn.Frame, pn.Kind, "%s / Add / %s: %s", p.name, p.name, pn.Value)
			continue
		}
		if d := setDiff(want, got); d != "" {
			r.Fail("C16", "fabricated", p.name, "after-add", "after adding tag %#x to the result of an earlier parse, parsing %d other octets reports: %s", extraTag, len(second), d)
		}
	}
}
