package scen

import (
	"bufio"
	"bytes"
	"encoding/binary"
	"errors"
	"fmt"
	"io"

	"github.com/hujm2023/go-sms-protocol/codec"

	"verif/sim/core"
	"verif/sim/simnet"
)

// framing — C04. A sender writes a concatenation of length-prefixed frames; the
// simulated link decides how the stream arrives (cuts, coalescing, short
// reads), where it ends (EOF) or fails (read error) and whether a malformed
// prefix (0..3) is on the wire. The receiver runs the real frame extractors
// over SimConn, in the event-driven (Decode) or the blocking (DecodeBlocked)
// style, and every returned frame / error / Size() is checked against the
// sender's record.

const framingGroup = 97 * 12

func init() {
	Register(&Scenario{
		Name:  "framing",
		Props: []string{"C04"},
		Plan: func(prop, tier string) []Batch {
			if tier == "thorough" {
				return []Batch{
					{Mode: "single-fault", Count: 6000 * framingGroup, Exhaustive: true, Group: framingGroup},
					{Mode: "seeded", Count: 4000000},
				}
			}
			return []Batch{
				{Mode: "single-fault", Count: 150 * framingGroup, Exhaustive: true, Group: framingGroup},
				{Mode: "seeded", Count: 40000},
			}
		},
		Run:  runFraming,
		Real: []string{"codec.CMPPCodec.Decode", "codec.CMPPCodec.DecodeBlocked", "codec.SMPPCodec.Decode", "codec.SMPPCodec.DecodeBlocked"},
		Stub: []string{"sender (frame generator)", "network link (cuts, coalescing, short reads, EOF, read errors, malformed prefixes)", "SimConn implementing codec.ConnReader (compact / realloc-poison / ring buffer disciplines)", "consumer loop"},
		Rule: "frame lists (1..64 frames, 4..64KiB, adversarial bodies) x arrival patterns drawn from the choice tape; mode single-fault enumerates, for every generated stream of <= 96 octets, every cut / EOF / read-error position x both codecs x both entry points; a run is non-trivial when at least one fault fired (cut inside a frame, coalesced frames, short read, EOF, read error, malformed prefix) or a rare-condition probe hit; distinct = distinct event-log hash",
	})
}

type framePlan struct {
	frames    [][]byte // well-formed frames, in order
	badAt     int      // index at which a malformed-prefix frame is inserted (-1: none)
	badPrefix uint32
	stream    []byte
	// ends[k] = stream offset at which frame k ends
	ends []int
	// failAt: offset at which the stream ends (EOF) or fails (read error); -1 none
	failAt  int
	failErr error
}

func genFrames(c *core.Chooser, maxFrames int, maxLen int, small bool) [][]byte {
	n := 1 + c.Size(maxFrames-1, 2, 8)
	frames := make([][]byte, 0, n)
	for i := 0; i < n; i++ {
		var l int
		if small {
			l = 4 + c.Size(28, 0, 1, 4, 8, 12)
		} else {
			switch c.Pick(6, 3, 1) {
			case 0:
				l = 4 + c.Size(60, 0, 1, 4, 8, 12, 16)
			case 1:
				l = 4 + c.Size(2000, 12, 16, 255, 256, 1024)
			default:
				// around the sizes a block-wise reader would count in: 4 KiB, and every multiple of 8 KiB / 16 KiB up to 64 KiB
				l = 4 + c.Size(maxLen-4, 4092, 4096, 8188, 8190, 16380, 16382, 32764, 32766, 49148, 49150, 65531, 65532)
			}
		}
		f := make([]byte, l)
		binary.BigEndian.PutUint32(f, uint32(l))
		body := f[4:]
		switch c.Pick(3, 2, 1, 1, 2) {
		case 0:
			copy(body, c.Blob(len(body), "any"))
		case 1:
			// body made of plausible length prefixes
			for j := 0; j+4 <= len(body); j += 4 {
				binary.BigEndian.PutUint32(body[j:], uint32(c.Range(0, 40)))
			}
		case 2: // zeros
		case 3:
			for j := range body {
				body[j] = 0xff
			}
		default:
			// looks like a CMPP/SMPP PDU header
			if len(body) >= 8 {
				binary.BigEndian.PutUint32(body[0:], uint32(c.Range(1, 9))|uint32(c.Intn(2))<<31)
				binary.BigEndian.PutUint32(body[4:], uint32(c.Uint64()))
			}
		}
		frames = append(frames, f)
	}
	return frames
}

func (p *framePlan) build() {
	p.stream = p.stream[:0]
	p.ends = p.ends[:0]
	for i, f := range p.frames {
		if i == p.badAt {
			break
		}
		p.stream = append(p.stream, f...)
		p.ends = append(p.ends, len(p.stream))
	}
	if p.badAt >= 0 {
		var b [4]byte
		binary.BigEndian.PutUint32(b[:], p.badPrefix)
		p.stream = append(p.stream, b[:]...)
		// something after the malformed prefix, so that a reader which trusts it has bytes to misread
		p.stream = append(p.stream, 0, 0, 0, 9, 1, 2, 3, 4, 5)
		p.frames = p.frames[:p.badAt]
	}
}

func errName(err error) string {
	switch {
	case err == nil:
		return "nil"
	case errors.Is(err, codec.ErrPacketNotComplete):
		return "incomplete"
	case errors.Is(err, io.EOF):
		return "EOF"
	case errors.Is(err, io.ErrUnexpectedEOF):
		return "UnexpectedEOF"
	case errors.Is(err, simnet.ErrInjected):
		return "injected"
	case errors.Is(err, simnet.ErrDeadline):
		return "deadline"
	}
	return "other"
}

func hexN(b []byte, n int) string {
	if len(b) > n {
		return fmt.Sprintf("%x…(%d)", b[:n], len(b))
	}
	return fmt.Sprintf("%x", b)
}

type linkSource struct {
	r      *core.Run
	plan   *framePlan
	off    int
	cutter func(remaining int) int
	cuts   *[]int
	// withErr: the chunk that reaches the end of the stream is handed over together with the end-of-stream error
	withErr bool
}

func (s *linkSource) Next() ([]byte, error) {
	limit := len(s.plan.stream)
	if s.plan.failAt >= 0 && s.plan.failAt < limit {
		limit = s.plan.failAt
	}
	if s.off >= limit {
		if s.plan.failAt >= 0 {
			s.r.Event("link: stream fails at %d with %s", s.off, errName(s.plan.failErr))
			return nil, s.plan.failErr
		}
		s.r.Event("link: end of stream at %d", s.off)
		return nil, io.EOF
	}
	n := s.cutter(limit - s.off)
	chunk := s.plan.stream[s.off : s.off+n]
	s.r.Event("link: deliver [%d,%d)", s.off, s.off+n)
	s.off += n
	if s.cuts != nil {
		*s.cuts = append(*s.cuts, s.off)
	}
	if s.withErr && s.off >= limit {
		err := error(io.EOF)
		if s.plan.failAt >= 0 {
			err = s.plan.failErr
		}
		s.r.Event("link: the stream ends with that chunk (%s)", errName(err))
		return append([]byte(nil), chunk...), err
	}
	return append([]byte(nil), chunk...), nil
}

// flakyReader hands out a stream in pieces and fails ONCE, with a deadline error, after failAt octets; the stream
// continues afterwards (a read deadline that expired and was re-armed).
type flakyReader struct {
	data   []byte
	pos    int
	failAt int
	failed bool
	piece  int
}

func (f *flakyReader) Read(p []byte) (int, error) {
	if !f.failed && f.pos >= f.failAt {
		f.failed = true
		return 0, simnet.ErrDeadline
	}
	if f.pos >= len(f.data) {
		return 0, io.EOF
	}
	n := min(len(p), f.piece, len(f.data)-f.pos)
	if !f.failed && f.pos+n > f.failAt {
		n = f.failAt - f.pos
	}
	copy(p, f.data[f.pos:f.pos+n])
	f.pos += n
	return n, nil
}

// bufioBlocked: the blocking extractor over the reader its interface was copied from, a *bufio.Reader (whose Size()
// is its capacity), on a connection with one transient read error somewhere in the stream. Every frame it returns
// without an error must be a frame that was sent, in order; after the error nothing is demanded.
func bufioBlocked(r *core.Run, cd codec.Codec, site string, frames [][]byte) {
	var stream []byte
	for _, f := range frames {
		if len(f) > 4000 {
			return // stay below the buffer's capacity: that is where a "body already buffered" shortcut would live
		}
		stream = append(stream, f...)
	}
	if len(stream) < 8 {
		return
	}
	idx := int(r.Cfg.Index)
	fr := &flakyReader{data: stream, failAt: 1 + (idx*7919)%(len(stream)-1), piece: 1 + (idx*31)%97}
	br := bufio.NewReaderSize(fr, 4096)
	r.Probe("blocking_extractor_over_bufio")
	for i, want := range frames {
		var got []byte
		var err error
		if p := r.Call(site, func() { got, err = cd.DecodeBlocked(br) }); p != nil {
			r.Fail("C04", "panic", site, p.Kind, "DecodeBlocked over a bufio.Reader panicked: %s", p.Value)
			return
		}
		if err != nil {
			return
		}
		if !bytes.Equal(got, want) {
			r.Fail("C04", "frame-mismatch", site, "bufio-transient-error", "over a bufio.Reader with one transient read error after %d octets, frame %d came back as %d octets %s… (sent %d octets %s…) and no error", fr.failAt, i, len(got), hexN(got, 12), len(want), hexN(want, 12))
			return
		}
	}
}

// neighbourSource lets a second connection decode one frame every time the first one blocks.
type neighbourSource struct {
	inner simnet.Source
	r     *core.Run
	kind  int
	site  string
	n     int
}

func (s *neighbourSource) Next() ([]byte, error) {
	c := s.r.C
	if s.n < 6 && c.Prob(1, 2) {
		s.n++
		l := 4 + c.Intn(60)
		f := c.Blob(l, "any")
		f[0], f[1], f[2], f[3] = 0, 0, 0, byte(l)
		var cd codec.Codec = codec.NewCMPPCodec()
		if s.kind == 1 {
			cd = codec.NewSMPPCodec()
		}
		nb := simnet.NewSimConn(simnet.Compact, 64, nil)
		nb.Arrive(f)
		nb.Fail(io.EOF)
		var got []byte
		var err error
		if p := s.r.Call(s.site, func() { got, err = cd.DecodeBlocked(nb) }); p != nil {
			s.r.Fail("C04", "panic", s.site, p.Kind, "DecodeBlocked on a neighbouring connection panicked: %s", p.Value)
		} else if err != nil || !bytes.Equal(got, f) {
			s.r.Fail("C04", "frame-mismatch", s.site, "neighbour", "a neighbouring connection's frame of %d octets came back as %s (%v)", l, hexN(got, 16), err)
		}
		s.r.Fault("neighbour_connection_decodes")
	}
	return s.inner.Next()
}

func runFraming(r *core.Run) {
	c := r.C
	exhaustive := r.Cfg.Mode == "single-fault"
	var codecIdx, entry, faultKind, pos int
	if exhaustive {
		sub := int(r.Cfg.Index % framingGroup)
		pos = sub % 97
		v := sub / 97
		codecIdx, entry, faultKind = v%2, (v/2)%2, v/4 // faultKind 0 cut, 1 eof, 2 read_err
	} else {
		codecIdx, entry = c.Intn(2), c.Intn(2)
	}
	var cd codec.Codec
	cname := "CMPPCodec"
	// the codec types are plain exported structs: a value that was never passed through its constructor is a codec too
	zeroValue := !exhaustive && c.Prob(1, 3)
	if codecIdx == 0 {
		cd = codec.NewCMPPCodec()
		if zeroValue {
			cd = new(codec.CMPPCodec)
		}
	} else {
		cd = codec.NewSMPPCodec()
		if zeroValue {
			cd = new(codec.SMPPCodec)
		}
		cname = "SMPPCodec"
	}
	ename := "Decode"
	if entry == 1 {
		ename = "DecodeBlocked"
	}
	site := cname + "." + ename
	disc := simnet.Discipline(c.Intn(3))

	plan := &framePlan{badAt: -1, failAt: -1}
	if exhaustive {
		// short streams: total <= 96 octets
		for {
			plan.frames = genFrames(c, 6, 32, true)
			total := 0
			for i, f := range plan.frames {
				if total+len(f) > 96 {
					plan.frames = plan.frames[:i]
					break
				}
				total += len(f)
			}
			if len(plan.frames) > 0 {
				break
			}
		}
	} else {
		maxFrames, maxLen := 12, 4096
		if c.Prob(1, 10) {
			maxFrames = 64
		}
		if c.Prob(1, 20) {
			maxLen = 65536
		}
		plan.frames = genFrames(c, maxFrames, maxLen, false)
		bigBacklog := c.Prob(1, 150)
		if bigBacklog {
			// a consumer that was away for a while finds megabytes buffered: 17..40 maximal frames in one piece
			// (backlogs around 1 MiB and 2 MiB, where a 20- or 21-bit size computation changes)
			plan.frames = nil
			for i, n := 0, 17+c.Intn(24); i < n; i++ {
				l := 60000 + c.Intn(5536)
				f := c.Blob(l, "any")
				f[0], f[1], f[2], f[3] = byte(l>>24), byte(l>>16), byte(l>>8), byte(l)
				plan.frames = append(plan.frames, f)
			}
			r.Probe("megabyte_backlog")
		}
		if !bigBacklog && c.Prob(1, 6) {
			plan.badAt = c.Intn(len(plan.frames) + 1)
			plan.badPrefix = uint32(c.Intn(4))
			if plan.badAt > len(plan.frames)-1 {
				plan.frames = append(plan.frames, nil)
			}
		}
	}
	nOrig := len(plan.frames)
	_ = nOrig
	plan.build()
	if plan.badAt >= 0 {
		r.Fault("bad_prefix")
		r.Probe(fmt.Sprintf("bad_prefix_%d", plan.badPrefix))
	}
	total := len(plan.stream)

	// where does the stream end or fail?
	var singleCut = -1
	if exhaustive {
		switch faultKind {
		case 0:
			if pos == 0 || pos >= total {
				r.Event("trivial: cut position %d outside stream of %d", pos, total)
			} else {
				singleCut = pos
			}
		case 1:
			if pos > total {
				r.Event("trivial: eof position beyond stream")
			}
			plan.failAt, plan.failErr = min(pos, total), io.EOF
		case 2:
			plan.failAt, plan.failErr = min(pos, total), simnet.ErrInjected
		}
	} else {
		switch c.Pick(6, 2, 2, 1) {
		case 1:
			plan.failAt, plan.failErr = c.Intn(total+1), io.EOF
		case 2:
			plan.failAt, plan.failErr = c.Intn(total+1), simnet.ErrInjected
		case 3:
			plan.failAt, plan.failErr = c.Intn(total+1), simnet.ErrDeadline // a read deadline expires
		}
	}
	if plan.failAt >= 0 {
		kind := "eof"
		if plan.failErr == simnet.ErrInjected {
			kind = "read_err"
		}
		if plan.failErr == simnet.ErrDeadline {
			kind = "read_deadline"
		}
		r.Fault(kind)
		// classify the position
		prev := 0
		where := "on_boundary"
		for _, e := range plan.ends {
			if plan.failAt > prev && plan.failAt < e {
				if plan.failAt-prev < 4 {
					where = "inside_prefix"
				} else {
					where = "inside_body"
				}
			}
			prev = e
		}
		if plan.failAt > prev && plan.failAt < total {
			where = "inside_bad_frame"
		}
		r.Probe(kind + "_" + where)
	}

	// arrival pattern
	cutMode := 0
	if !exhaustive {
		cutMode = c.Pick(2, 3, 3, 2, 2) // 0 whole, 1 random cuts, 2 tiny chunks, 3 frame-aligned, 4 coalesce-all-then-one
		if total > 1<<20 {
			cutMode = []int{0, 4, 1}[c.Intn(3)] // never octet by octet through a megabyte
		}
	}
	delivered := 0
	cutter := func(remaining int) int {
		var n int
		switch {
		case exhaustive:
			if singleCut > delivered {
				n = singleCut - delivered
			} else {
				n = remaining
			}
		case cutMode == 0:
			n = remaining
		case cutMode == 1:
			n = 1 + c.Intn(remaining)
		case cutMode == 2:
			n = 1 + c.Intn(min(remaining, 5))
		case cutMode == 3:
			// up to the end of the k-th next frame
			n = remaining
			k := c.Intn(3)
			for _, e := range plan.ends {
				if e > delivered {
					if k == 0 {
						n = e - delivered
						break
					}
					k--
				}
			}
		default:
			if delivered == 0 && remaining > 1 {
				n = remaining - 1
			} else {
				n = remaining
			}
		}
		if n > remaining {
			n = remaining
		}
		if n < 1 {
			n = 1
		}
		// classify the cut for the probes
		end := delivered + n
		limit := total
		if plan.failAt >= 0 && plan.failAt < limit {
			limit = plan.failAt
		}
		if end < limit {
			prev := 0
			for _, e := range plan.ends {
				if end > prev && end < e {
					r.Fault("cut")
					if end-prev < 4 {
						r.Probe("cut_inside_prefix")
					} else {
						r.Probe("cut_inside_body")
					}
				}
				prev = e
			}
		}
		// coalescing: more than one frame end inside this chunk
		nEnds := 0
		for _, e := range plan.ends {
			if e > delivered && e <= end {
				nEnds++
			}
		}
		if nEnds >= 2 {
			r.Fault("coalesce")
			r.Probe("two_frames_one_chunk")
		}
		delivered = end
		return n
	}

	r.Event("framing %s disc=%d frames=%d total=%d bad=%d/%d failAt=%d cutMode=%d", site, disc, len(plan.frames), total, plan.badAt, plan.badPrefix, plan.failAt, cutMode)
	src := &linkSource{r: r, plan: plan, cutter: cutter}
	conn := simnet.NewSimConn(disc, 64, nil)
	if !exhaustive && c.Prob(1, 3) {
		conn.ShortRead = func(avail, want int) int {
			k := 1 + c.Intn(min(avail, want))
			if k < min(avail, want) {
				r.Fault("short_read")
			}
			return k
		}
	}

	if !exhaustive && entry == 0 && c.Prob(1, 4) {
		conn.PeekErrWithData = true
		src.withErr = true // the last chunk arrives together with the end of the stream
		conn.OnPeekErr = func() { r.Fault("peek_data_with_error") }
	}
	if !exhaustive && entry == 0 && c.Prob(1, 4) {
		conn.SegPeek = func(avail, n int) int {
			if c.Prob(1, 3) {
				return 1 + c.Intn(n) // n means: contiguous after all
			}
			return n
		}
	}

	consumed := 0 // octets of the stream the extractor has consumed according to the sender's record
	next := 0     // index of the next expected frame
	checkFrame := func(got []byte) bool {
		want := plan.frames[next]
		cp := append([]byte(nil), got...) // snapshot at return, before the next read call invalidates the view
		if !bytes.Equal(cp, want) {
			r.Fail("C04", "frame-mismatch", site, "content", "frame %d: got %s want %s", next, hexN(cp, 24), hexN(want, 24))
			return false
		}
		return true
	}

	if entry == 0 {
		// event-driven consumer: on every arrival call Decode until it reports incomplete
		arrived := 0
		arrivals := 0
		for {
			chunk, err := src.Next()
			if len(chunk) > 0 {
				conn.Arrive(chunk)
				arrived += len(chunk)
			}
			// one codec value serves every connection of a gateway: between two arrivals on this connection another
			// connection gets a whole frame decoded by the same value, and each connection must see its own octets only
			arrivals++
			if !exhaustive && r.Cfg.Index%2 == 0 && arrivals%2 == 0 {
				l := 4 + (arrivals*7+int(r.Cfg.Index))%50
				f := make([]byte, l)
				for i := range f {
					f[i] = byte(i*31 + arrivals)
				}
				f[0], f[1], f[2], f[3] = 0, 0, 0, byte(l)
				nb := simnet.NewSimConn(simnet.Compact, 64, nil)
				nb.Arrive(f)
				var got []byte
				var nerr error
				if p := r.Call(site, func() { got, nerr = cd.Decode(nb) }); p != nil {
					r.Fail("C04", "panic", site, p.Kind, "Decode on a neighbouring connection panicked: %s", p.Value)
					return
				}
				if nerr != nil || !bytes.Equal(got, f) {
					r.Fail("C04", "frame-mismatch", site, "neighbour-same-codec", "a neighbouring connection served by the same codec value: its frame of %d octets came back as %s (%v)", l, hexN(got, 16), nerr)
					return
				}
				r.Fault("neighbour_connection_decodes")
			}
			if err != nil {
				conn.Fail(err)
			}
			for calls := 0; ; calls++ {
				if calls > 3*len(plan.frames)+6 {
					r.Fail("C04", "no-progress", site, "spin", "Decode kept returning without reporting incomplete (%d calls after one arrival)", calls)
					return
				}
				before := conn.Size()
				buffered := arrived - consumed
				var frame []byte
				var derr error
				conn.PeekShort = false
				overAsked, overHad := 0, 0
				conn.OnOverPeek = func(n, have int) {
					// the probe for the 4-octet prefix is how the extractor learns that not even the prefix is there (a short
					// answer IS its "incomplete" signal); what the anchored mechanism guards with Size() is the peek of the frame
					if n > 4 {
						overAsked, overHad = n, have
					}
				}
				if p := r.Call(site, func() { frame, derr = cd.Decode(conn) }); p != nil {
					r.Fail("C04", "panic", site, p.Kind, "Decode panicked: %s at %s", p.Value, p.Frame)
					return
				}
				conn.OnOverPeek = nil
				if overAsked > 0 {
					// "tries to read a complete packet without blocking": the length announced by the (untrusted) prefix is
					// compared with Size() before the frame is peeked; a Peek for more than Size() fetches from the connection
					// on the readers this interface was written for, and an announced length of gigabytes never arrives
					r.Fail("C04", "would-block", site, "peek-beyond-size", "Decode asked Peek for %d octets while Size() was %d: on a reader that fetches what is missing from the connection the non-blocking extractor waits for the peer", overAsked, overHad)
					return
				}
				after := conn.Size()
				r.Event("Decode -> len=%d err=%s size %d->%d", len(frame), errName(derr), before, after)
				// what does the sender's record say?
				atBad := plan.badAt >= 0 && next == len(plan.frames)
				if conn.PeekShort && errors.Is(derr, codec.ErrPacketNotComplete) && before == after && buffered >= 4 {
					// the reader could not hand the octets out in one piece this time: "not complete yet" is a correct
					// answer as long as nothing was consumed; the next call (no new arrival) must do better
					r.Fault("short_peek")
					continue
				}
				switch {
				case atBad && buffered >= 4:
					if derr == nil || errors.Is(derr, codec.ErrPacketNotComplete) {
						r.Fail("C04", "bad-prefix-accepted", site, fmt.Sprintf("prefix=%d", plan.badPrefix),
							"length prefix %d (< 4) was not refused: frame len=%d err=%s consumed=%d", plan.badPrefix, len(frame), errName(derr), before-after)
					}
					return // the connection is to be closed after a refusal
				case next < len(plan.frames) && buffered >= len(plan.frames[next]):
					if derr != nil {
						r.Fail("C04", "complete-frame-not-returned", site, errName(derr), "frame %d of %d octets fully buffered (%d) but Decode returned %v", next, len(plan.frames[next]), buffered, derr)
						return
					}
					if !checkFrame(frame) {
						return
					}
					if before-after != len(plan.frames[next]) {
						r.Fail("C04", "consumed-mismatch", site, "complete", "frame of %d octets returned but Size() dropped by %d", len(plan.frames[next]), before-after)
						return
					}
					consumed += len(plan.frames[next])
					next++
					continue
				default:
					// incomplete (or nothing left)
					if derr == nil {
						r.Fail("C04", "partial-frame", site, "incomplete", "only %d octets of the next frame buffered, Decode returned a frame of %d octets: %s", buffered, len(frame), hexN(frame, 16))
						return
					}
					if !errors.Is(derr, codec.ErrPacketNotComplete) {
						r.Fail("C04", "wrong-error", site, "incomplete", "next frame incomplete (%d buffered) but Decode returned %v instead of ErrPacketNotComplete", buffered, derr)
						return
					}
					if before != after {
						r.Fail("C04", "consumed-mismatch", site, "incomplete", "Decode reported incomplete but consumed %d octets", before-after)
						return
					}
				}
				break
			}
			if err != nil {
				break
			}
		}
		// liveness: every frame that arrived completely must be out
		wantOut := 0
		for _, e := range plan.ends {
			if e <= src.off {
				wantOut++
			}
		}
		if next < wantOut {
			r.Fail("C04", "frames-lost", site, "event-driven", "%d frames arrived completely, only %d returned", wantOut, next)
		}
		return
	}

	// blocking consumer
	var blockSrc simnet.Source = src
	if !exhaustive && c.Prob(1, 5) {
		// while this connection waits for octets another connection of the same process reads a frame of its own
		// through the same kind of extractor: nothing the extractors keep between calls may leak from one to the other
		blockSrc = &neighbourSource{inner: src, r: r, kind: codecIdx, site: site}
	}
	conn = simnet.NewSimConn(disc, 64, blockSrc)
	if !exhaustive && c.Prob(1, 3) {
		conn.ShortRead = func(avail, want int) int {
			k := 1 + c.Intn(min(avail, want))
			if k < min(avail, want) {
				r.Fault("short_read")
			}
			return k
		}
	}
	if !exhaustive && c.Prob(1, 6) {
		// a Read may return (0, nil); never twice in a row here, so progress stays guaranteed
		last := false
		conn.ZeroRead = func() bool {
			if last {
				last = false
				return false
			}
			if c.Prob(1, 4) {
				last = true
				r.Fault("zero_read")
				return true
			}
			return false
		}
	}
	if !exhaustive && c.Prob(1, 3) {
		// the read that hands over the last octets before the stream ends or fails reports the error with them
		conn.DataErr = true
		src.withErr = true
		conn.OnDataErr = func() { r.Fault("data_with_error") }
	}
	limit := total
	if plan.failAt >= 0 && plan.failAt < limit {
		limit = plan.failAt
	}
	// frames returned by the blocking extractor are the caller's: they are kept (not copied) and
	// must still hold their octets after later calls
	var kept [][]byte
	defer func() {
		// the codec value outlives the connection: the next connection it serves (here: one frame, delivered at
		// once) must get exactly its own octets, whatever state the previous stream ended in
		if !exhaustive && len(r.Findings) == 0 {
			l := 4 + c.Intn(40)
			f := c.Blob(l, "any")
			f[0], f[1], f[2], f[3] = 0, 0, 0, byte(l)
			nb := simnet.NewSimConn(simnet.Compact, 64, nil)
			nb.Arrive(f)
			nb.Fail(io.EOF)
			var got []byte
			var err error
			if p := r.Call(site, func() {
				if r.Cfg.Index%2 == 1 {
					got, err = cd.Decode(nb)
				} else {
					got, err = cd.DecodeBlocked(nb)
				}
			}); p != nil {
				r.Fail("C04", "panic", site, p.Kind, "DecodeBlocked on the next connection panicked: %s", p.Value)
			} else if err != nil || !bytes.Equal(got, f) {
				r.Fail("C04", "frame-mismatch", site, "next-connection", "after a stream that ended with %s the same codec value returned %s (%v) for the next connection's frame %s", errName(plan.failErr), hexN(got, 16), err, hexN(f, 16))
			}
			r.Probe("codec_value_serves_next_connection")
		}
		if !exhaustive && len(r.Findings) == 0 && r.Cfg.Index%4 == 1 {
			bufioBlocked(r, cd, site, plan.frames)
		}
		for i, f := range kept {
			if i < len(plan.frames) && !bytes.Equal(f, plan.frames[i]) {
				r.Fail("C04", "frame-changed-later", site, "retained", "frame %d returned by DecodeBlocked changed after later calls (the extractor reuses its buffer)", i)
				return
			}
		}
	}()
	for calls := 0; ; calls++ {
		if calls > len(plan.frames)+2 {
			r.Fail("C04", "no-progress", site, "spin", "DecodeBlocked kept returning after the stream ended")
			return
		}
		var frame []byte
		var derr error
		if p := r.Call(site, func() { frame, derr = cd.DecodeBlocked(conn) }); p != nil {
			atBad := plan.badAt >= 0 && next == len(plan.frames)
			d := p.Kind
			if atBad {
				d = fmt.Sprintf("prefix=%d", plan.badPrefix)
			}
			r.Fail("C04", "panic", site, d, "DecodeBlocked panicked: %s at %s", p.Value, p.Frame)
			return
		}
		r.Event("DecodeBlocked -> len=%d err=%s", len(frame), errName(derr))
		atBad := plan.badAt >= 0 && next == len(plan.frames)
		switch {
		case next < len(plan.frames) && plan.ends[next] <= limit:
			// the whole frame is on the wire before the stream ends: it must come out
			if derr != nil {
				r.Fail("C04", "complete-frame-not-returned", site, errName(derr), "frame %d fully on the wire but DecodeBlocked returned %v", next, derr)
				return
			}
			if !checkFrame(frame) {
				return
			}
			kept = append(kept, frame)
			consumed += len(plan.frames[next])
			next++
			if got := src.off - conn.Size(); got != consumed {
				r.Fail("C04", "consumed-mismatch", site, "blocked", "after %d frames (%d octets) the reader consumed %d octets", next, consumed, got)
				return
			}
			continue
		case atBad && consumed+4 <= limit:
			if derr == nil {
				r.Fail("C04", "bad-prefix-accepted", site, fmt.Sprintf("prefix=%d", plan.badPrefix), "length prefix %d (< 4) was not refused: frame len=%d", plan.badPrefix, len(frame))
			}
			return
		default:
			// the stream ends or fails before the frame is complete
			if derr == nil {
				r.Fail("C04", "partial-frame", site, "stream-ended", "stream ended at %d before frame %d completed, DecodeBlocked returned a frame of %d octets and no error", limit, next, len(frame))
				return
			}
			if len(frame) != 0 {
				r.Fail("C04", "frame-and-error", site, errName(derr), "DecodeBlocked returned both %d octets and error %v", len(frame), derr)
			}
			return
		}
	}
}
