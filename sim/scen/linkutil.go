package scen

import (
	"errors"
	"io"

	"github.com/hujm2023/go-sms-protocol/codec"

	"verif/sim/core"
	"verif/sim/simnet"
)

// byteLink is a byte-preserving link: it only decides how the stream is cut
// into arrival chunks (cuts, coalescing). Used by the scenarios whose oracles
// assert equality.
type byteLink struct {
	r      *core.Run
	stream []byte
	ends   []int
	off    int
	mode   int
}

func newByteLink(r *core.Run, stream []byte, ends []int) *byteLink {
	return &byteLink{r: r, stream: stream, ends: ends, mode: r.C.Pick(3, 3, 2, 2)}
}

func (l *byteLink) Next() ([]byte, error) {
	rem := len(l.stream) - l.off
	if rem <= 0 {
		return nil, io.EOF
	}
	c := l.r.C
	var n int
	switch l.mode {
	case 0:
		n = rem
	case 1:
		n = 1 + c.Intn(rem)
	case 2:
		n = 1 + c.Intn(min(rem, 7))
	default:
		// frame aligned, 1..3 frames per chunk
		n = rem
		k := c.Intn(3)
		for _, e := range l.ends {
			if e > l.off {
				if k == 0 {
					n = e - l.off
					break
				}
				k--
			}
		}
	}
	end := l.off + n
	nEnds, inside := 0, end < len(l.stream)
	for _, e := range l.ends {
		if e > l.off && e <= end {
			nEnds++
		}
		if e == end {
			inside = false
		}
	}
	if inside {
		l.r.Fault("cut")
	}
	if nEnds >= 2 {
		l.r.Fault("coalesce")
	}
	chunk := append([]byte(nil), l.stream[l.off:end]...)
	l.r.Event("link: deliver [%d,%d)", l.off, end)
	l.off = end
	return chunk, nil
}

// recvFrames runs the real frame extractor over a SimConn fed by the link and
// returns copies of the frames it produced. how describes an abnormal end.
func recvFrames(r *core.Run, proto string, link *byteLink, maxFrames int) (frames [][]byte, how string) {
	var cd codec.Codec
	if proto == "smpp34" {
		cd = codec.NewSMPPCodec()
	} else {
		cd = codec.NewCMPPCodec()
	}
	c := r.C
	disc := simnet.Discipline(c.Intn(3))
	blocking := c.Bool()
	if blocking {
		conn := simnet.NewSimConn(disc, 64, link)
		for len(frames) < maxFrames+2 {
			var f []byte
			var err error
			if p := r.Call("codec.DecodeBlocked", func() { f, err = cd.DecodeBlocked(conn) }); p != nil {
				return frames, "panic in DecodeBlocked: " + p.Value
			}
			if err != nil {
				if errors.Is(err, io.EOF) {
					return frames, ""
				}
				return frames, "DecodeBlocked: " + err.Error()
			}
			frames = append(frames, append([]byte(nil), f...))
		}
		return frames, "too many frames"
	}
	conn := simnet.NewSimConn(disc, 64, nil)
	for {
		chunk, lerr := link.Next()
		if len(chunk) > 0 {
			conn.Arrive(chunk)
		}
		for {
			var f []byte
			var err error
			if p := r.Call("codec.Decode", func() { f, err = cd.Decode(conn) }); p != nil {
				return frames, "panic in Decode: " + p.Value
			}
			if errors.Is(err, codec.ErrPacketNotComplete) {
				break
			}
			if err != nil {
				return frames, "Decode: " + err.Error()
			}
			frames = append(frames, append([]byte(nil), f...))
			if len(frames) > maxFrames+2 {
				return frames, "too many frames"
			}
		}
		if lerr != nil {
			if conn.Size() > 0 {
				return frames, "stream ended with an incomplete frame buffered"
			}
			return frames, ""
		}
	}
}
