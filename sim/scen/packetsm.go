package scen

import (
	"bytes"
	"encoding/binary"
	"encoding/hex"
	"fmt"
	"strings"

	"github.com/hujm2023/go-sms-protocol/packet"

	"verif/sim/core"
)

// packet-sm — C20. Simulation in the small: operation histories over one
// packet.Writer with a failing operation injected at a chosen position, the
// mirrored read history over one packet.Reader, and read histories against an
// input that is cut short at a chosen position. A reference model (a byte
// slice, a count and a sticky first error) is compared after every operation.

func init() {
	Register(&Scenario{
		Pools: true,
		Name:  "packet-sm",
		Props: []string{"C20"},
		Plan: func(prop, tier string) []Batch {
			if tier == "thorough" {
				return []Batch{
					{Mode: "fail-pos", Count: 600000 * 16, Exhaustive: true, Group: 16},
					{Mode: "trunc-pos", Count: 200000 * 80, Exhaustive: true, Group: 80},
					{Mode: "seeded", Count: 6000000},
				}
			}
			return []Batch{
				{Mode: "fail-pos", Count: 5000 * 16, Exhaustive: true, Group: 16},
				{Mode: "trunc-pos", Count: 2000 * 80, Exhaustive: true, Group: 80},
				{Mode: "seeded", Count: 100000},
			}
		},
		Run:  runPacketSM,
		Real: []string{"packet.Writer (all write primitives, Bytes, BytesWithLength, Written, Len, HexString, Error)", "packet.Reader (all read primitives, Remaining, Bytes, Error)"},
		Stub: []string{"operation-history generator", "reference model of writer and reader", "failure-position / truncation-position injector"},
		Rule: "histories of 0..200 write operations with arbitrary arguments, one failing operation (over-long fixed-width string) injected at a tape-chosen position, then the mirrored read history; read histories against inputs truncated at a tape-chosen position. Modes fail-pos / trunc-pos enumerate every failure position of histories <= 12 operations and every truncation offset of inputs < 80 octets. Non-trivial = a failure was injected or the input was truncated; distinct = distinct event-log hash",
	})
}

type wop struct {
	kind int // 0 u8 1 u16 2 u32 3 u64 4 bytes 5 string 6 cstring 7 fixed
	u    uint64
	b    []byte
	n    int
	fail bool
}

var wopName = []string{"WriteUint8", "WriteUint16", "WriteUint32", "WriteUint64", "WriteBytes", "WriteString", "WriteCString", "WriteFixedLenString", "WriteFixedLenString(binary)"}

func genWop(c *core.Chooser) wop {
	o := wop{kind: c.Intn(9)}
	switch o.kind {
	case 0, 1, 2, 3:
		o.u = c.Uint64()
		if c.Bool() {
			o.u = []uint64{0, 1, 0x7f, 0x80, 0xff, 0xffff, 0xffffffff, ^uint64(0)}[c.Intn(8)]
		}
	case 4:
		o.b = c.Blob(c.Size(40, 0, 1), "any")
		if c.Prob(1, 12) {
			// a large body: sizes around the powers of two a size-dependent path would switch on
			o.b = c.Blob([]int{255, 256, 1023, 1024, 1025, 4095, 4096, 5000}[c.Intn(8)], "any")
		}
	case 5:
		o.b = c.Blob(c.Size(40, 0, 1), "any")
	case 6:
		o.b = c.Blob(c.Size(30, 0, 1), "nonul")
		if c.Prob(1, 40) {
			o.b = c.Blob([]int{254, 255, 256, 257, 300, 1023, 1024, 4096}[c.Intn(8)], "nonul") // a terminator far away
		}
	case 8:
		o.n = 1 + c.Size(31, 9, 15)
		o.b = c.Blob(o.n, "any") // exactly the slot width, any octets
		switch c.Intn(4) {
		case 1:
			o.b[0] = 0
		case 2:
			o.b[o.n-1] = 0
		case 3:
			o.b[c.Intn(o.n)] = 0
		}
	case 7:
		o.n = c.Size(40, 0, 1, 21)
		o.b = c.Blob(c.Intn(o.n+1), "nonul")
		if c.Prob(1, 5) {
			// wide slots: padding of exactly / around a multiple of 64
			pad := []int{63, 64, 65, 127, 128, 129, 192, 256, 300}[c.Intn(9)]
			o.b = c.Blob(c.Intn(12), "nonul")
			o.n = len(o.b) + pad
		}
	}
	return o
}

func failingWop(c *core.Chooser) wop {
	n := c.Size(30, 0, 1)
	b := c.Blob(n+1+c.Intn(5), "nonul")
	if c.Prob(1, 3) {
		// over-long AND with a NUL inside (at the front, inside the slot, right behind it): still too long
		b[[]int{0, c.Intn(len(b)), min(n, len(b)-1)}[c.Intn(3)]] = 0
	}
	return wop{kind: 7, n: n, b: b, fail: true}
}

type wmodel struct {
	b       []byte
	failed  bool
	firstAt int
}

func (m *wmodel) apply(o wop, idx int) {
	if m.failed {
		return
	}
	switch o.kind {
	case 0:
		m.b = append(m.b, byte(o.u))
	case 1:
		m.b = binary.BigEndian.AppendUint16(m.b, uint16(o.u))
	case 2:
		m.b = binary.BigEndian.AppendUint32(m.b, uint32(o.u))
	case 3:
		m.b = binary.BigEndian.AppendUint64(m.b, o.u)
	case 4, 5:
		m.b = append(m.b, o.b...)
	case 6:
		m.b = append(append(m.b, o.b...), 0)
	case 7, 8:
		if len(o.b) > o.n {
			m.failed, m.firstAt = true, idx
			return
		}
		slot := make([]byte, o.n)
		copy(slot, o.b)
		m.b = append(m.b, slot...)
	}
}

func applyW(w *packet.Writer, o wop) {
	switch o.kind {
	case 0:
		w.WriteUint8(uint8(o.u))
	case 1:
		w.WriteUint16(uint16(o.u))
	case 2:
		w.WriteUint32(uint32(o.u))
	case 3:
		w.WriteUint64(o.u)
	case 4:
		w.WriteBytes(o.b)
	case 5:
		w.WriteString(string(o.b))
	case 6:
		w.WriteCString(string(o.b))
	case 7, 8:
		w.WriteFixedLenString(string(o.b), o.n)
	}
}

func runPacketSM(r *core.Run) {
	switch r.Cfg.Mode {
	case "trunc-pos":
		packetTrunc(r, int(r.Cfg.Index%80))
		return
	case "fail-pos":
		packetHistory(r, int(r.Cfg.Index%16), 12)
		if len(r.Findings) == 0 {
			packetHistory(r, -2, 6) // a fresh writer right after the released one: no failure injected
		}
		return
	}
	if r.C.Prob(1, 3) {
		packetTrunc(r, -1)
		return
	}
	packetHistory(r, -1, 200)
	// writers are taken from and released to pools: whatever an earlier writer went through (a
	// recorded failure included) must not be visible in the next one
	for k := r.C.Intn(3); k > 0 && len(r.Findings) == 0; k-- {
		r.Probe("writer_after_released_writer")
		packetHistory(r, -1, 12)
	}
}

func packetHistory(r *core.Run, failPos, maxOps int) {
	c := r.C
	n := c.Size(maxOps, 1, 2, 12)
	ops := make([]wop, n)
	for i := range ops {
		ops[i] = genWop(c)
	}
	if failPos == -1 && c.Prob(2, 3) && n > 0 {
		failPos = c.Intn(n)
	}
	if failPos >= 0 && failPos < n {
		ops[failPos] = failingWop(c)
		// a second failing operation later on: the FIRST error is the one that stays
		if failPos+1 < n && c.Prob(1, 3) {
			ops[failPos+1+c.Intn(n-failPos-1)] = failingWop(c)
			r.Probe("two_failing_writes")
		}
		r.Fault("failing_write")
		if failPos == 0 {
			r.Probe("failure_at_first_op")
		}
		if failPos == n-1 {
			r.Probe("failure_at_last_op")
		}
	}
	if n > 0 && c.Prob(1, 10) {
		// the first four octets written spell a number: the number of octets that will be written in all (or that plus
		// four): a body that looks as if it were framed already
		ops[0] = wop{kind: 2}
		pre := &wmodel{}
		for i, o := range ops {
			pre.apply(o, i)
		}
		ops[0].u = uint64(len(pre.b) + []int{0, 4, -4}[c.Intn(3)])
		r.Probe("first_word_equals_total")
	}
	m := &wmodel{}
	var w *packet.Writer
	// the size hint a caller may pass: none, exactly what will be written, or something else
	hint := -1
	{
		pre := &wmodel{}
		for i, o := range ops {
			pre.apply(o, i)
		}
		switch c.Pick(3, 3, 1, 1, 1) {
		case 1:
			hint = len(pre.b)
		case 2:
			hint = len(pre.b) + 4
		case 3:
			hint = max(0, len(pre.b)-1)
		case 4:
			hint = []int{0, 1, 64, 4096}[c.Intn(4)]
		}
	}
	if p := r.Call("packet.NewPacketWriter", func() {
		if hint >= 0 {
			w = packet.NewPacketWriter(hint)
		} else {
			w = packet.NewPacketWriter()
		}
	}); p != nil {
		r.Fail("C20", "panic", p.Frame, p.Kind, "%s", p.Value)
		return
	}
	defer func() { r.Call("packet.Writer.Release", func() { w.Release() }) }()
	if w.Error() != nil || w.Written() != 0 || w.Len() != 0 {
		r.Fail("C20", "new-writer-not-clean", "NewPacketWriter", "state", "a new writer starts with Error()=%v Written()=%d Len()=%d", w.Error(), w.Written(), w.Len())
		return
	}
	var firstErr string
	// a garbage collection (finalizers included) between two operations of a live writer, while the writers of
	// earlier histories are garbage: the moment is a function of the run index
	gcAt := -1
	if r.Cfg.Index%16 == 5 && len(ops) > 1 {
		gcAt = 1 + int(r.Cfg.Index/16)%(len(ops)-1)
	}
	for i, o := range ops {
		if i == gcAt {
			core.ForceGC()
			r.Fault("gc_between_ops")
		}
		m.apply(o, i)
		if p := r.Call("packet.Writer."+wopName[o.kind], func() { applyW(w, o) }); p != nil {
			r.Fail("C20", "panic", p.Frame, p.Kind, "%s(len %d, n %d) panicked: %s", wopName[o.kind], len(o.b), o.n, p.Value)
			return
		}
		r.Event("%s len=%d n=%d fail=%v", wopName[o.kind], len(o.b), o.n, o.fail)
		when := "before-error"
		if m.failed {
			when = "after-error"
			if i == m.firstAt {
				when = "at-error"
			}
		}
		// --- compare with the model after every operation
		if (w.Error() != nil) != m.failed {
			r.Fail("C20", "error-state", "Writer."+wopName[o.kind], when, "op %d: Error()=%v, model failed=%v", i, w.Error(), m.failed)
			return
		}
		if m.failed {
			if firstErr == "" {
				firstErr = w.Error().Error()
			} else if w.Error().Error() != firstErr {
				r.Fail("C20", "first-error-replaced", "Writer."+wopName[o.kind], when, "first error %q became %q", firstErr, w.Error().Error())
			}
		}
		if w.Written() != len(m.b) {
			r.Fail("C20", "written-count", "Writer."+wopName[o.kind], when, "op %d: Written()=%d but %d octets were written", i, w.Written(), len(m.b))
			return
		}
		if !m.failed {
			if w.Len() != len(m.b) {
				r.Fail("C20", "len", "Writer."+wopName[o.kind], when, "Len()=%d, model %d", w.Len(), len(m.b))
				return
			}
			if h := w.HexString(); h != hex.EncodeToString(m.b) {
				r.Fail("C20", "content", "Writer."+wopName[o.kind], when, "HexString() differs from the model after op %d", i)
				return
			}
		} else {
			if w.Len() != 0 || w.HexString() != "" {
				r.Fail("C20", "zero-values", "Writer."+wopName[o.kind], when, "after the error Len()=%d HexString()=%q (want zero values)", w.Len(), w.HexString())
			}
		}
	}
	var out, outL []byte
	var e1, e2 error
	r.Call("packet.Writer.Bytes", func() { out, e1 = w.Bytes(); outL, e2 = w.BytesWithLength() })
	if m.failed {
		if e1 == nil || e2 == nil || len(out) != 0 || len(outL) != 0 {
			r.Fail("C20", "bytes-after-error", "Writer.Bytes", "after-error", "Bytes()/BytesWithLength() returned %d/%d octets, errors %v/%v after a failed operation", len(out), len(outL), e1, e2)
		}
		return
	}
	if e1 != nil || e2 != nil || !bytes.Equal(out, m.b) {
		r.Fail("C20", "content", "Writer.Bytes", "final", "Bytes() differs from the model (%d vs %d octets, err %v)", len(out), len(m.b), e1)
		return
	}
	if len(outL) != 4+len(m.b) || binary.BigEndian.Uint32(outL) != uint32(4+len(m.b)) || !bytes.Equal(outL[4:], m.b) {
		r.Fail("C20", "length-prefix", "Writer.BytesWithLength", "final", "BytesWithLength(): %d octets, prefix %d, model %d octets", len(outL), binary.BigEndian.Uint32(outL), len(m.b))
		return
	}
	// Bytes() is an observer: the writer still holds what was written, a second look gives the same, and what the
	// first look returned stays intact when the owner grows it in place or a later write follows
	{
		var out2 []byte
		var e3 error
		sp := out[len(out):cap(out)]
		for i := range sp {
			sp[i] = 0xEE
		}
		r.Call("packet.Writer.Bytes", func() { out2, e3 = w.Bytes() })
		if e3 != nil || !bytes.Equal(out2, m.b) || w.Len() != len(m.b) || w.Written() != len(m.b) || w.HexString() != hex.EncodeToString(m.b) {
			r.Fail("C20", "content", "Writer.Bytes", "second-look", "after Bytes() the writer reports Len()=%d Written()=%d and a second Bytes() of %d octets (err %v); %d octets were written", w.Len(), w.Written(), len(out2), e3, len(m.b))
			return
		}
		r.Call("packet.Writer.WriteUint8", func() { w.WriteUint8(0x5a) })
		if !bytes.Equal(out, m.b) || !bytes.Equal(out2, m.b) {
			r.Fail("C20", "content", "Writer.Bytes", "changed-by-later-write", "octets returned by Bytes() changed when the writer was written to afterwards")
			return
		}
	}
	// --- mirrored read history
	rd := packet.NewPacketReader(append([]byte(nil), out...))
	for i, o := range ops {
		var ok bool
		var got string
		site := "Reader"
		p := r.Call("packet.Reader.mirror", func() {
			switch o.kind {
			case 0:
				v := rd.ReadUint8()
				ok, got, site = v == uint8(o.u), fmt.Sprint(v), "Reader.ReadUint8"
			case 1:
				v := rd.ReadUint16()
				ok, got, site = v == uint16(o.u), fmt.Sprint(v), "Reader.ReadUint16"
			case 2:
				v := rd.ReadUint32()
				ok, got, site = v == uint32(o.u), fmt.Sprint(v), "Reader.ReadUint32"
			case 3:
				v := rd.ReadUint64()
				ok, got, site = v == o.u, fmt.Sprint(v), "Reader.ReadUint64"
			case 4:
				if c.Bool() {
					v := rd.ReadNBytes(len(o.b))
					ok, got, site = bytes.Equal(v, o.b), hexN(v, 16), "Reader.ReadNBytes"
					// the caller grows what it was given in place: the fields still to be read must not notice
					sp := v[len(v):cap(v)]
					for i := range sp {
						sp[i] = 0xEE
					}
				} else {
					v := make([]byte, len(o.b))
					rd.ReadBytes(v)
					ok, got, site = bytes.Equal(v, o.b), hexN(v, 16), "Reader.ReadBytes"
				}
			case 5:
				v := rd.ReadCStringNWithoutTrim(len(o.b))
				ok, got, site = v == string(o.b), hexN([]byte(v), 16), "Reader.ReadCStringNWithoutTrim"
			case 6:
				v := rd.ReadCString()
				ok, got, site = v == string(o.b), hexN([]byte(v), 16), "Reader.ReadCString"
			case 7:
				switch c.Intn(3) {
				case 2:
					// fixed-width binary: only the NUL padding on the right is removed
					v := rd.ReadFixedBinaryN(o.n)
					ok, got, site = v == strings.TrimRight(string(o.b), "\x00"), hexN([]byte(v), 16), "Reader.ReadFixedBinaryN"
					if o.n <= 0 {
						ok = v == ""
					}
				case 1:
					v := rd.ReadCStringN(o.n)
					ok, got, site = v == string(o.b), hexN([]byte(v), 16), "Reader.ReadCStringN"
				default:
					v := rd.ReadCStringNWithoutTrim(o.n)
					slot := make([]byte, o.n)
					copy(slot, o.b)
					ok, got, site = v == string(slot), hexN([]byte(v), 16), "Reader.ReadCStringNWithoutTrim"
				}
			case 8:
				// binary fixed-width field (any octets, NULs anywhere): written as a fixed-length string
				v := rd.ReadFixedBinaryN(o.n)
				ok, got, site = v == strings.TrimRight(string(o.b), "\x00"), hexN([]byte(v), 16), "Reader.ReadFixedBinaryN"
			}
		})
		if p != nil {
			r.Fail("C20", "panic", p.Frame, p.Kind, "mirrored read %d panicked: %s", i, p.Value)
			return
		}
		if !ok || rd.Error() != nil {
			r.Fail("C20", "inverse", site, wopName[o.kind], "op %d: %s(len %d, n %d) read back as %s (err %v)", i, wopName[o.kind], len(o.b), o.n, got, rd.Error())
			return
		}
	}
	if rd.Remaining() != 0 {
		r.Fail("C20", "inverse", "Reader.Remaining", "leftover", "%d octets left after the mirrored read history", rd.Remaining())
	}
}

// packetTrunc: read histories against an input cut short at position t.
func packetTrunc(r *core.Run, t int) {
	c := r.C
	// build an input from a write history so that the reads are meaningful
	n := 1 + c.Size(10, 1, 2)
	var ops []wop
	m := &wmodel{}
	for i := 0; i < n; i++ {
		o := genWop(c)
		if o.kind == 7 && o.n > 60 {
			o.n, o.b = 21, o.b[:min(len(o.b), 21)]
		}
		if len(m.b)+len(o.b)+o.n+9 > 79 {
			break
		}
		ops = append(ops, o)
		m.apply(o, i)
	}
	full := m.b
	if t < 0 {
		t = c.Intn(len(full) + 1)
	}
	if t >= len(full) {
		r.Event("trivial: truncation at %d beyond input of %d", t, len(full))
		t = len(full)
	} else {
		r.Fault("truncated_input")
	}
	in := append([]byte(nil), full[:t]...)
	rd := packet.NewPacketReader(append([]byte(nil), in...))
	pos, failed := 0, false
	var firstErr string
	// after the mirrored ops, a few extra reads past the end
	extra := 1 + c.Intn(3)
	for i := 0; i < len(ops)+extra; i++ {
		var o wop
		if i < len(ops) {
			o = ops[i]
		} else {
			o = genWop(c)
			if o.kind >= 7 && o.n == 0 {
				o.n = 1
			}
		}
		// what the reference reader does
		need := 0
		switch o.kind {
		case 0:
			need = 1
		case 1:
			need = 2
		case 2:
			need = 4
		case 3:
			need = 8
		case 4, 5:
			need = len(o.b)
		case 6:
			idx := bytes.IndexByte(in[min(pos, len(in)):], 0)
			if idx < 0 {
				need = len(in) - pos + 1 // cannot be satisfied
			} else {
				need = idx + 1
			}
		case 7, 8:
			need = o.n
		}
		expectFail := failed || pos+need > len(in)
		var want []byte
		if !expectFail {
			want = in[pos : pos+need]
		}
		var got []byte
		var zero bool
		site := ""
		p := r.Call("packet.Reader.read", func() {
			switch o.kind {
			case 0:
				v := rd.ReadUint8()
				got, zero, site = []byte{v}, v == 0, "Reader.ReadUint8"
			case 1:
				v := rd.ReadUint16()
				got, zero, site = binary.BigEndian.AppendUint16(nil, v), v == 0, "Reader.ReadUint16"
			case 2:
				v := rd.ReadUint32()
				got, zero, site = binary.BigEndian.AppendUint32(nil, v), v == 0, "Reader.ReadUint32"
			case 3:
				v := rd.ReadUint64()
				got, zero, site = binary.BigEndian.AppendUint64(nil, v), v == 0, "Reader.ReadUint64"
			case 4:
				if len(o.b)%2 == 1 {
					v := make([]byte, len(o.b))
					rd.ReadBytes(v)
					if rd.Error() != nil {
						v = nil // the receiver of a failed ReadBytes is unspecified
					}
					got, zero, site = v, true, "Reader.ReadBytes"
				} else {
					v := rd.ReadNBytes(len(o.b))
					got, zero, site = v, len(v) == 0, "Reader.ReadNBytes"
				}
			case 5:
				v := rd.ReadCStringNWithoutTrim(len(o.b))
				got, zero, site = []byte(v), v == "", "Reader.ReadCStringNWithoutTrim"
			case 6:
				v := rd.ReadCString()
				got, zero, site = append([]byte(v), 0), v == "", "Reader.ReadCString"
			case 7, 8:
				// the three fixed-width readers take the same octets and differ in what they strip
				switch (i + len(in)) % 3 {
				case 0:
					v := rd.ReadCStringNWithoutTrim(o.n)
					got, zero, site = []byte(v), v == "", "Reader.ReadCStringNWithoutTrim"
				case 1:
					v := rd.ReadFixedBinaryN(o.n)
					got, zero, site = []byte(v), v == "", "Reader.ReadFixedBinaryN"
					want = bytes.TrimRight(want, "\x00")
				default:
					v := rd.ReadCStringN(o.n)
					got, zero, site = []byte(v), v == "", "Reader.ReadCStringN"
					if k := bytes.IndexByte(want, 0); k >= 0 {
						want = want[:k]
					}
				}
			}
		})
		if p != nil {
			r.Fail("C20", "panic", p.Frame, p.Kind, "read %d panicked on an input of %d octets: %s", i, len(in), p.Value)
			return
		}
		r.Event("%s need=%d pos=%d/%d expectFail=%v", site, need, pos, len(in), expectFail)
		if need == 0 && !failed {
			// zero-length reads consume nothing and cannot fail
			if rd.Error() != nil {
				r.Fail("C20", "error-state", site, "zero-length", "a zero-length read reported %v", rd.Error())
				return
			}
			continue
		}
		if expectFail {
			if rd.Error() == nil {
				r.Fail("C20", "read-past-end", site, "no-error", "read of %d octets at %d of a %d-octet input succeeded (returned %s)", need, pos, len(in), hexN(got, 16))
				return
			}
			if !zero {
				r.Fail("C20", "zero-values", site, "after-error", "a failed read returned %s instead of the zero value", hexN(got, 16))
			}
			if !failed {
				failed, firstErr = true, rd.Error().Error()
			} else if rd.Error().Error() != firstErr {
				r.Fail("C20", "first-error-replaced", site, "after-error", "first error %q became %q", firstErr, rd.Error().Error())
			}
			if b := rd.Bytes(); len(b) != 0 {
				r.Fail("C20", "zero-values", "Reader.Bytes", "after-error", "Bytes() returned %d octets after an error", len(b))
			}
			continue
		}
		if rd.Error() != nil {
			r.Fail("C20", "error-state", site, "enough-input", "read of %d octets at %d of %d failed: %v", need, pos, len(in), rd.Error())
			return
		}
		if !bytes.Equal(got, want) {
			r.Fail("C20", "content", site, "read", "read at %d returned %s, input holds %s", pos, hexN(got, 16), hexN(want, 16))
			return
		}
		pos += need
		if rd.Remaining() != len(in)-pos {
			r.Fail("C20", "remaining", site, "read", "Remaining()=%d, model %d", rd.Remaining(), len(in)-pos)
			return
		}
	}
	// the first error stays in place also while OTHER readers and writers fail in other primitives
	if failed {
		for k, n := 0, 1+c.Intn(3); k < n; k++ {
			r.Call("packet.Reader.read", func() {
				other := packet.NewPacketReader(c.Blob(c.Intn(3), "any"))
				switch c.Intn(6) {
				case 0:
					other.ReadCString()
				case 1:
					other.ReadNBytes(5)
				case 2:
					other.ReadUint64()
				case 3:
					other.ReadCStringN(7)
				case 4:
					other.ReadBytes(make([]byte, 9))
				default:
					w := packet.NewPacketWriter()
					w.WriteFixedLenString("too long for its slot", 3)
					_, _ = w.Bytes()
					w.Release()
				}
			})
		}
		r.Probe("other_readers_failed_meanwhile")
		if rd.Error() == nil || rd.Error().Error() != firstErr {
			r.Fail("C20", "first-error-replaced", "Reader.Error", "other-reader-failed", "first error %q reads %v after other readers failed", firstErr, rd.Error())
		}
	}
}
