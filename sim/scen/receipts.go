package scen

import (
	"bytes"
	"encoding/hex"
	"fmt"
	"strings"
	"unicode/utf8"

	protocol "github.com/hujm2023/go-sms-protocol"
	"github.com/hujm2023/go-sms-protocol/cmpp"
	"github.com/hujm2023/go-sms-protocol/cmpp/cmpp20"
	"github.com/hujm2023/go-sms-protocol/smgp"
	"github.com/hujm2023/go-sms-protocol/smgp/smgp30"
	"github.com/hujm2023/go-sms-protocol/smpp"
	"github.com/hujm2023/go-sms-protocol/smpp/smpp34"

	"verif/sim/core"
	"verif/sim/spec"
)

// receipts — C18. The SMSC stub answers every submitted message with a submit
// response (carrying the message id) and, later, a delivery receipt. Key
// order, key subset and key spelling of the receipt text are tape decisions;
// responses and receipts travel as PDUs in one stream in a tape-chosen order
// (a receipt may overtake the response that announces its id). The ESME
// extracts with the real extractors and correlates by id.

func init() {
	Register(&Scenario{
		Pools: true,
		Name:  "receipts",
		Props: []string{"C18"},
		Plan:  simple(60000, 10000000),
		Run:   runReceipts,
		Real:  []string{"smpp34.ExtractDeliveryReceipt", "smgp30.ExtractDeliveryReceipt", "cmpp.SubPduDeliveryContent.IEncode / IDecode", "IEncode / IDecode / dispatch of SubmitSmResp, DeliverSm, smgp30.SubmitResp, smgp30.Deliver, cmpp20.PduSubmitResp, cmpp20.PduDeliver", "codec framers"},
		Stub:  []string{"SMSC receipt generator (key order, subset, spelling, values)", "link carrying responses and receipts in a tape-chosen order", "ESME correlation table"},
		Rule:  "1..6 messages per run; receipt texts built from the eight standard keys in a tape-chosen order and subset, values any space-free strings that contain no key token (plain, arbitrary octets, multi-byte runes whose case mappings change length, colons and upper-case look-alikes of the keys; also longer than the field width), SMGP ids any ten octets without ':'; CMPP status reports with arbitrary field values. Non-trivial = a non-canonical key order / subset / spelling was used or a receipt overtook its response; distinct = distinct event-log hash",
	})
}

var rcptKeys = []string{"id", "sub", "dlvrd", "submit date", "done date", "stat", "err", "text"}
var rcptBackup = map[string]string{"sub": "Sub", "dlvrd": "Dlvrd", "submit date": "Submit_Date", "done date": "Done_Date", "stat": "Stat", "err": "Err", "text": "Text"}
var rcptWidth = map[string]int{"sub": 3, "dlvrd": 3, "submit date": 10, "done date": 10, "stat": 7, "err": 3, "text": 20}

type rcptMsg struct {
	idx       int
	seq       uint32
	idText    string // SMPP: text id; SMGP: 10 raw octets; CMPP: decimal of the u64
	idKey     string // what the ESME correlates on
	want      map[string]string
	respSeen  bool
	receipts  int
	mismatch  bool
	respID    string
	cmppBody  *cmpp.SubPduDeliveryContent
	rcptFirst bool
	text      string // the receipt text as it travels
}

var rcptTokens = []string{"id:", "sub:", "dlvrd:", "stat:", "err:", "text:", "Sub:", "Dlvrd:", "Submit_Date:", "Done_Date:", "Stat:", "Err:", "Text:"}

// genRcptValue: any space-free string that does not itself contain a key token
// (both SMGP spellings count). Besides plain alphanumerics it produces
// arbitrary octets (invalid UTF-8 included), multi-byte runes whose case
// mappings change length, colons and upper-case look-alikes of the keys.
func genRcptValue(c *core.Chooser, key string) string {
	w := rcptWidth[key]
	var n int
	switch c.Pick(4, 2, 2) {
	case 0:
		n = w
	case 1:
		n = c.Intn(w + 1)
	default:
		n = w + 1 + c.Intn(8) // longer than the field width
	}
	if n == 0 {
		n = 1
	}
	const alpha = "ABCDEFGHIJKLMNOPQRSTUVWXYZabcdefghijklmnopqrstuvwxyz0123456789-_./+"
	var v string
	if strings.Contains(key, "date") && c.Prob(1, 6) {
		// dates in the other shapes the specifications know: 12 digits, the 16-character absolute and relative SMPP
		// time formats, ISO-like; still "the characters between the colon and the next space"
		d := string(c.Blob(15, "digits"))
		return []string{d[:12], d + "+", d + "-", d + "R", d[:14], "20" + d[:12], d[:6] + "T" + d[6:12], d[:8] + "+0800"}[c.Intn(8)]
	}
	if c.Prob(1, 12) {
		// what a parser may take for a number - signed, padded, in another base, out of range - or a colon behind letters
		// that are only the TAIL of a key ("next:" ends like "text:" and is no key token): still just characters
		odd := []string{"-1", "-7", "+2", "-0", "-001", "0x1F", "1e3", "-2147483649", "next:1", "Next:9", "ext:204", "xtat:7", "arr:0", "bub:3", "olvrd:1", "xd:5", "late:1"}
		return odd[c.Intn(len(odd))]
	}
	if c.Prob(1, 8) {
		// a word the specifications define, in another letter case or with a look-alike letter: the value is still
		// "the characters between the colon and the next space"
		w := spec.StateWords[c.Intn(len(spec.StateWords))]
		switch c.Intn(5) {
		case 1:
			w = strings.ToLower(w)
		case 2:
			w = w[:1] + strings.ToLower(w[1:])
		case 3:
			w = strings.Replace(w, "K", "\u212a", 1)
		case 4:
			w = strings.ToLower(w[:len(w)-1]) + w[len(w)-1:]
		}
		return w
	}
	switch c.Pick(5, 2, 2, 2) {
	case 0:
		b := c.Blob(n, "any")
		for i := range b {
			b[i] = alpha[int(b[i])%len(alpha)]
		}
		v = string(b)
	case 1: // arbitrary octets
		b := c.Blob(n, "nonul")
		for i := range b {
			if b[i] == ' ' {
				b[i] = '_'
			}
		}
		v = string(b)
	case 2: // runes whose lower/upper case forms have another length, Latin-1 octets
		specials := []string{"İ", "K", "ß", "ǅ", "é", "\xe9", "Zürich", "ſ", "Å", "\uff1a", "12\uff1a30", "\uff49\uff44\uff1a", "\u3000", "\ufe55", "\u2236", "\uff0e", "\u00a0"}
		for len(v) < n {
			if c.Bool() {
				v += specials[c.Intn(len(specials))]
			} else {
				v += string(alpha[c.Intn(len(alpha))])
			}
		}
	default: // colons, look-alikes of the keys in another case, and words that CONTAIN a key's name (never a key token)
		looks := []string{"ID:", "SUB:", "Id:", "STAT:", "ERR:", "TEXT:", "DLVRD:", ":", "::", "a:b", "Date:", "date:", "sTat:",
			"sText", "sStat", "sSub", "sErr", "sDlvrd", "sSubmit_Date", "sDone_Date", "newsText", "UNsStat", "Text", "Stat",
			"subway", "submit", "sub", "paid", "valid", "id", "berry", "cherry", "err", "status", "restate", "stat", "context", "text", "dlvrd", "done", "date", "msgid", "userid"}
		for len(v) < n {
			if c.Bool() {
				v += looks[c.Intn(len(looks))]
			} else {
				v += string(alpha[c.Intn(len(alpha))])
			}
		}
	}
	// never a real key token inside a value
	for _, t := range rcptTokens {
		for strings.Contains(v, t) {
			v = strings.Replace(v, t, strings.ToUpper(t[:1])+"_"+t[1:len(t)-1]+"=", 1)
		}
	}
	if strings.ContainsAny(v, " ") {
		v = strings.ReplaceAll(v, " ", "_")
	}
	return v
}

// terminalID: the destination of a status report as gateways write it - bare digits, with a country code, with a
// plus sign or an international prefix in front (at most 21 octets).
func terminalID(c *core.Chooser) string {
	d := string(c.Blob(c.Size(21, 11, 13, 21), "digits"))
	if c.Prob(1, 3) {
		pre := []string{"+86", "86", "0086", "+1", "+", "00", "+086"}[c.Intn(7)]
		d = pre + d
		if len(d) > 21 {
			d = d[:21]
		}
	}
	return d
}

func runReceipts(r *core.Run) {
	c := r.C
	flavour := c.Pick(4, 4, 2) // 0 smpp, 1 smgp, 2 cmpp
	proto := []string{"smpp34", "smgp30", "cmpp20"}[flavour]
	n := 1 + c.Size(5, 1)
	var msgs []*rcptMsg
	type out struct {
		pdu    protocol.PDU
		isResp bool
		m      *rcptMsg
	}
	var outs []out
	type pendingBody struct {
		pdu        *cmpp20.PduDeliver
		live, snap []byte
	}
	var pendingBodies []pendingBody
	usedID := map[string]bool{}
	for i := 0; i < n; i++ {
		m := &rcptMsg{idx: i, seq: uint32(1000 + i), want: map[string]string{}}
		// receipt text
		order := append([]string(nil), rcptKeys...)
		noncanon := false
		if c.Prob(1, 2) {
			for a := 0; a < len(order)-1; a++ {
				b := a + c.Intn(len(order)-a)
				if a != b {
					order[a], order[b] = order[b], order[a]
					noncanon = true
				}
			}
		}
		// the fixed layout of the specification: every key present, every value exactly as wide as its field - in the
		// canonical order, or with ONE pair of keys swapped (a parser that slices by offset would not notice two keys
		// of equal length trading places)
		fixedLayout := c.Prob(1, 6)
		if fixedLayout {
			order = append(order[:0], rcptKeys...)
			noncanon = false
			if c.Prob(2, 3) {
				a, b := 1+c.Intn(len(order)-1), 1+c.Intn(len(order)-1)
				if c.Bool() {
					pairs := [][2]string{{"sub", "err"}, {"stat", "text"}, {"submit date", "done date"}, {"sub", "dlvrd"}}
					pr := pairs[c.Intn(len(pairs))]
					for i, k := range order {
						if k == pr[0] {
							a = i
						}
						if k == pr[1] {
							b = i
						}
					}
				}
				if a != b {
					order[a], order[b] = order[b], order[a]
					noncanon = true
				}
			}
			r.Probe("fixed_layout_receipt")
		}
		type kv struct{ key, spell, val string }
		var kvs []kv
		for _, k := range order {
			if k != "id" && !fixedLayout && c.Prob(1, 5) {
				noncanon = true
				continue // absent key
			}
			switch {
			case k == "id" && flavour == 1:
				raw := c.Blob(10, "any")
				// ids whose ten octets all come from one narrow class look like text, like BCD, like padding
				switch c.Pick(8, 1, 1, 1, 1) {
				case 1:
					raw = c.Blob(10, "digits")
				case 2:
					for j := range raw {
						raw[j] = "0123456789abcdefABCDEF"[int(raw[j])%22]
					}
				case 3:
					for j := range raw {
						raw[j] = (raw[j]%10)<<4 | (raw[j]>>4)%10 // packed BCD
					}
				case 4:
					for j := range raw {
						raw[j] = []byte{0x00, 0x20, 0x30, 0xff}[int(raw[j])%4]
					}
				}
				for j := range raw {
					if raw[j] == ':' {
						raw[j] = ';'
					}
				}
				for usedID[string(raw)] { // no rejection loop on tape draws
					raw[0]++
					if raw[0] == ':' {
						raw[0]++
					}
				}
				m.idText = string(raw)
				usedID[m.idText] = true
				m.idKey = hex.EncodeToString(raw)
				kvs = append(kvs, kv{"id", "id", m.idText})
			case k == "id":
				m.idText = fmt.Sprintf("%s%d", genRcptValue(c, "sub"), i)
				m.idKey = m.idText
				kvs = append(kvs, kv{"id", "id", m.idText})
			default:
				spell := k
				if flavour == 1 && c.Bool() {
					spell = rcptBackup[k]
					noncanon = true
				}
				v := genRcptValue(c, k)
				if fixedLayout {
					w := rcptWidth[k]
					for len(v) < w {
						v += string("0123456789"[len(v)%10])
					}
					v = v[:w]
					if !utf8.ValidString(v) || strings.ContainsAny(v, " ") {
						v = strings.Repeat("7", w)
					}
				}
				kvs = append(kvs, kv{k, spell, v})
			}
		}
		if flavour == 0 && r.Cfg.Index%10 == 3 {
			// a NUL octet is a character like any other between a colon and the next space (SMPP carries the text as octets)
			for j := range kvs {
				if kvs[j].key != "id" && len(kvs[j].val) >= 3 && utf8.ValidString(kvs[j].val) {
					b := []byte(kvs[j].val)
					b[len(b)/2] = 0
					kvs[j].val = string(b)
					r.Probe("nul_inside_a_receipt_value")
					break
				}
			}
		}
		// the receipt must fit the one-octet length field of the deliver PDU: shrink over-long values
		total := func() int {
			n := 0
			for _, x := range kvs {
				n += len(x.spell) + 2 + len(x.val)
			}
			return n
		}
		for total() > 250 {
			longest := -1
			for j, x := range kvs {
				if x.key != "id" && (longest < 0 || len(x.val) > len(kvs[longest].val)) {
					longest = j
				}
			}
			if longest < 0 || len(kvs[longest].val) <= 1 {
				break
			}
			kvs[longest].val = kvs[longest].val[:len(kvs[longest].val)/2]
		}
		var sb strings.Builder
		for j, x := range kvs {
			if j > 0 {
				sb.WriteByte(' ')
			}
			sb.WriteString(x.spell + ":" + x.val)
			v := x.val
			switch {
			case x.key == "id":
				v = m.idKey
			case flavour == 1 && len(v) > rcptWidth[x.key]:
				v = v[:rcptWidth[x.key]]
			}
			m.want[x.key] = v
		}
		if noncanon {
			r.Fault("receipt_shape")
		}
		text := sb.String()
		r.Event("message %d receipt %q", i, trunc(fmt.Sprintf("%q", text), 160))
		switch flavour {
		case 0:
			outs = append(outs, out{&smpp34.SubmitSmResp{Header: smpp.Header{ID: smpp.SUBMIT_SM_RESP, Sequence: m.seq}, MessageID: m.idText}, true, m})
			if len(text) > 255 {
				text = text[:255]
			}
			// esm_class: bits 5..2 = 0001 say "SMSC delivery receipt"; messaging mode (bits 1..0) and the feature bits 7..6 are the SMSC's business
			esm := uint8(4)
			if c.Prob(1, 3) {
				esm |= uint8(c.Intn(4)) | uint8(c.Intn(4))<<6
			}
			m.text = text
			outs = append(outs, out{&smpp34.DeliverSm{Header: smpp.Header{ID: smpp.DELIVER_SM, Sequence: m.seq + 5000}, ESMClass: esm, SourceAddr: "8613800000000",
				SmLength: uint8(len(text)), ShortMessage: []byte(text)}, false, m})
		case 1:
			outs = append(outs, out{&smgp30.SubmitResp{Header: smgp.NewHeader(0, smgp.CommandSubmitResp, m.seq), MsgID: m.idText}, true, m})
			m.text = text[:min(len(text), 255)]
			outs = append(outs, out{&smgp30.Deliver{Header: smgp.NewHeader(0, smgp.CommandDeliver, m.seq+5000), MsgID: string(c.Blob(10, "nonul")), IsReport: 1,
				MsgLength: uint8(min(len(text), 255)), MsgContent: text[:min(len(text), 255)]}, false, m})
		default:
			id := c.Uint64()
			if c.Prob(1, 6) {
				id = spec.GenInt(c, 64) // edges, and ids whose first octets spell text ("id:…", a header magic)
			}
			for usedID[fmt.Sprint(id)] {
				id++
			}
			usedID[fmt.Sprint(id)] = true
			m.idKey = fmt.Sprint(id)
			stat := string(c.Blob(c.Size(7, 7), "print"))
			if c.Prob(1, 4) {
				stat = genRcptValue(c, "stat") // among them the state words in other letter cases
				if len(stat) > 7 {
					stat = stat[:7]
				}
			}
			edgeTime := func(t string) string {
				if c.Prob(1, 8) {
					return []string{"0000000000", "", "9999999999", "0000000001", "000000000", "          "}[c.Intn(6)]
				}
				return t
			}
			body := &cmpp.SubPduDeliveryContent{MsgID: id, Stat: stat, SubmitTime: edgeTime(string(c.Blob(c.Size(10, 10), "digits"))),
				DoneTime: edgeTime(string(c.Blob(c.Size(10, 10), "digits"))), DestTerminalID: terminalID(c), SMSCSequence: uint32(c.Uint64())}
			m.cmppBody = body
			var bb []byte
			var err error
			if p := r.Call("cmpp.SubPduDeliveryContent.IEncode", func() { bb, err = body.IEncode() }); p != nil || err != nil {
				r.Fail("C18", "status-report", "cmpp.SubPduDeliveryContent", "encode", "IEncode failed: %v", err)
				return
			}
			if len(bb) != 8+7+10+10+21+4 {
				r.Fail("C18", "status-report", "cmpp.SubPduDeliveryContent", "length", "status report body of %d octets (60 expected)", len(bb))
			}
			outs = append(outs, out{&cmpp20.PduSubmitResp{Header: cmpp.NewHeader(0, cmpp.CommandSubmitResp, m.seq), MsgID: id}, true, m})
			// the SMSC keeps the encoded body until the deliver PDU is assembled (after the other reports were encoded)
			dl := &cmpp20.PduDeliver{Header: cmpp.NewHeader(0, cmpp.CommandDeliver, m.seq+5000), MsgID: c.Uint64(), RegisteredDeliver: 1, MsgLength: uint8(len(bb))}
			pendingBodies = append(pendingBodies, pendingBody{dl, bb, append([]byte(nil), bb...)})
			outs = append(outs, out{dl, false, m})
		}
		msgs = append(msgs, m)
	}
	for i, pb := range pendingBodies {
		if !bytes.Equal(pb.live, pb.snap) {
			r.Fail("C18", "status-report", "cmpp.SubPduDeliveryContent", "body-changed-later", "the status-report body encoded for message %d changed while later reports were encoded", i)
			return
		}
		pb.pdu.MsgContent = string(pb.live)
	}
	// ---- ordinary mobile-originated traffic on the same session: a subscriber forwards the very text of a receipt.
	// It is a message, not a receipt (esm_class / IsReport say so) and must not be correlated.
	if flavour != 2 && len(msgs) > 0 && c.Prob(1, 3) {
		src := msgs[c.Intn(len(msgs))]
		r.Probe("mo_with_receipt_text")
		if flavour == 0 {
			// bits 5..2: 0000 default, 0010 delivery acknowledgement, 0100 user acknowledgement, 0110 conversation abort, 1000 intermediate notification, and near misses of 0001
			typ := []uint8{0x00, 0x08, 0x10, 0x18, 0x20, 0x0c, 0x14, 0x24, 0x3c, 0x05 &^ 0x04}[c.Intn(10)]
			esm := typ | uint8(c.Intn(4)) | uint8(c.Intn(4))<<6
			outs = append(outs, out{&smpp34.DeliverSm{Header: smpp.Header{ID: smpp.DELIVER_SM, Sequence: 9000}, ESMClass: esm, SourceAddr: "8613900000000",
				SmLength: uint8(len(src.text)), ShortMessage: []byte(src.text)}, false, nil})
		} else {
			outs = append(outs, out{&smgp30.Deliver{Header: smgp.NewHeader(0, smgp.CommandDeliver, 9000), MsgID: string(c.Blob(10, "nonul")), IsReport: 0,
				MsgLength: uint8(len(src.text)), MsgContent: src.text}, false, nil})
		}
	}
	// ---- the network chooses the order of responses and receipts
	if c.Prob(2, 3) {
		for a := 0; a < len(outs)-1; a++ {
			b := a + c.Intn(len(outs)-a)
			outs[a], outs[b] = outs[b], outs[a]
		}
	}
	seenResp := map[*rcptMsg]bool{}
	var stream []byte
	var ends []int
	for _, o := range outs {
		if o.isResp {
			seenResp[o.m] = true
		} else if o.m != nil && !seenResp[o.m] {
			r.Fault("receipt_overtook_response")
		}
		var b []byte
		var err error
		if p := r.Call(typeSite(o.pdu)+".IEncode", func() { b, err = o.pdu.IEncode() }); p != nil || err != nil {
			r.Event("SMSC cannot encode %s: %v", typeSite(o.pdu), err)
			return
		}
		stream = append(stream, b...)
		ends = append(ends, len(stream))
	}
	frames, how := recvFrames(r, proto, newByteLink(r, stream, ends), len(ends))
	if how != "" || len(frames) != len(outs) {
		r.Event("link trouble: %s", how)
		return
	}
	// ---- ESME
	bySeq := map[uint32]*rcptMsg{}
	for _, m := range msgs {
		bySeq[m.seq] = m
	}
	byID := map[string]*rcptMsg{}               // ids learnt from submit responses
	waiting := map[string][]map[string]string{} // receipts whose id is not known yet
	correlate := func(id string, got map[string]string) {
		m := byID[id]
		if m == nil {
			waiting[id] = append(waiting[id], got)
			return
		}
		m.receipts++
		for _, k := range rcptKeys {
			if got[k] != m.want[k] {
				site := proto + ".ExtractDeliveryReceipt"
				r.Fail("C18", "extract", site, "field="+k, "key %q: receipt carries %q, extracted %q", k, m.want[k], got[k])
			}
		}
	}
	for _, f := range frames {
		var pdu protocol.PDU
		var err error
		if p := r.Call("Decode"+proto, func() { pdu, err = dispatcher[proto](f) }); p != nil || err != nil {
			r.Event("ESME cannot decode a frame: %v", err)
			continue
		}
		switch v := pdu.(type) {
		case *smpp34.SubmitSmResp:
			if m := bySeq[v.GetSequenceID()]; m != nil {
				byID[v.MessageID] = m
				for _, g := range waiting[v.MessageID] {
					correlate(v.MessageID, g)
				}
				delete(waiting, v.MessageID)
			}
		case *smgp30.SubmitResp:
			if m := bySeq[v.GetSequenceID()]; m != nil {
				byID[v.MsgID] = m
				for _, g := range waiting[v.MsgID] {
					correlate(v.MsgID, g)
				}
				delete(waiting, v.MsgID)
			}
		case *cmpp20.PduSubmitResp:
			if m := bySeq[v.GetSequenceID()]; m != nil {
				byID[fmt.Sprint(v.MsgID)] = m
				for _, g := range waiting[fmt.Sprint(v.MsgID)] {
					correlate(fmt.Sprint(v.MsgID), g)
				}
				delete(waiting, fmt.Sprint(v.MsgID))
			}
		case *smpp34.DeliverSm:
			// the ESME asks the library what kind of deliver this is
			esm := int(v.ESMClass)
			isRcpt, isLong := smpp.IsDeliveryReceipt(esm), smpp.IsLongMO(esm)
			if want := (esm>>2)&0xf == 1; isRcpt != want {
				r.Fail("C18", "classification", "smpp.IsDeliveryReceipt", fmt.Sprintf("type=%#x", (esm>>2)&0xf), "esm_class %#02x (message type bits %04b): IsDeliveryReceipt says %v", esm, (esm>>2)&0xf, isRcpt)
			}
			if want := esm&0xc0 == 0x40; isLong != want {
				r.Fail("C18", "classification", "smpp.IsLongMO", fmt.Sprintf("features=%#x", esm>>6), "esm_class %#02x (feature bits %02b): IsLongMO says %v", esm, esm>>6, isLong)
			}
			if !isRcpt {
				continue
			}
			var d smpp34.DeliveryReceipt
			if p := r.Call("smpp34.ExtractDeliveryReceipt", func() { d, _ = smpp34.ExtractDeliveryReceipt(string(v.ShortMessage)) }); p != nil {
				r.Fail("C18", "panic", p.Frame, p.Kind, "ExtractDeliveryReceipt(%q): %s", trunc(string(v.ShortMessage), 60), p.Value)
				continue
			}
			if d.Valid() != (d.ID != "" && d.Stat != "") {
				r.Fail("C18", "extract", "smpp34.DeliveryReceipt.Valid", "id-and-stat", "Valid()=%v for id %q stat %q (valid means: both present)", d.Valid(), trunc(d.ID, 20), d.Stat)
			}
			correlate(d.ID, map[string]string{"id": d.ID, "sub": d.Sub, "dlvrd": d.Dlvrd, "submit date": d.SubDate, "done date": d.DoneDate, "stat": d.Stat, "err": d.Err, "text": d.Text})
		case *smgp30.Deliver:
			if v.IsReport != 1 {
				continue
			}
			var d smgp30.DeliveryReceipt
			if p := r.Call("smgp30.ExtractDeliveryReceipt", func() { d, _ = smgp30.ExtractDeliveryReceipt(v.MsgContent) }); p != nil {
				r.Fail("C18", "panic", p.Frame, p.Kind, "ExtractDeliveryReceipt(%q): %s", trunc(v.MsgContent, 60), p.Value)
				continue
			}
			if d.Valid() != (d.ID != "" && d.Stat != "") {
				r.Fail("C18", "extract", "smgp30.DeliveryReceipt.Valid", "id-and-stat", "Valid()=%v for id %q stat %q (valid means: both present)", d.Valid(), trunc(d.ID, 20), d.Stat)
			}
			correlate(d.ID, map[string]string{"id": d.ID, "sub": d.Sub, "dlvrd": d.Dlvrd, "submit date": d.SubDate, "done date": d.DoneDate, "stat": d.Stat, "err": d.Err, "text": d.Text})
		case *cmpp20.PduDeliver:
			got := new(cmpp.SubPduDeliveryContent)
			var derr error
			if p := r.Call("cmpp.SubPduDeliveryContent.IDecode", func() { derr = got.IDecode([]byte(v.MsgContent)) }); p != nil || derr != nil {
				r.Fail("C18", "status-report", "cmpp.SubPduDeliveryContent", "decode", "IDecode of the encoder's own body failed: %v", derr)
				continue
			}
			id := fmt.Sprint(got.MsgID)
			m := byID[id]
			if m == nil {
				// learn later: buffer as a pseudo receipt
				for _, x := range msgs {
					if x.idKey == id {
						m = x
					}
				}
			}
			if m == nil || m.cmppBody == nil {
				r.Fail("C18", "status-report", "cmpp.SubPduDeliveryContent", "field=MsgID", "status report id %s matches no submitted message", id)
				continue
			}
			m.receipts++
			if *got != *m.cmppBody {
				for _, fld := range goDiff(m.cmppBody, got) {
					r.Fail("C18", "status-report", "cmpp.SubPduDeliveryContent", "field="+fld, "status report field %s: sent %s, decoded %s", fld, showField(m.cmppBody, fld), showField(got, fld))
				}
			}
		}
	}
	for _, m := range msgs {
		if m.receipts != 1 {
			r.Fail("C18", "correlation", proto, fmt.Sprintf("receipts=%d", min(m.receipts, 2)), "message %d (id %q) was matched with %d receipts", m.idx, trunc(m.idKey, 24), m.receipts)
		}
	}
}
