package scen

import (
	"context"
	"encoding/binary"
	"fmt"
	"io"
	"strings"

	protocol "github.com/hujm2023/go-sms-protocol"
	"github.com/hujm2023/go-sms-protocol/cmpp"
	"github.com/hujm2023/go-sms-protocol/cmpp/cmpp20"
	"github.com/hujm2023/go-sms-protocol/codec"
	"github.com/hujm2023/go-sms-protocol/datacoding"
	"github.com/hujm2023/go-sms-protocol/datacoding/gsm7encoding"
	"github.com/hujm2023/go-sms-protocol/packet"
	"github.com/hujm2023/go-sms-protocol/sgip"
	"github.com/hujm2023/go-sms-protocol/smgp"
	"github.com/hujm2023/go-sms-protocol/smgp/smgp30"
	"github.com/hujm2023/go-sms-protocol/smpp"
	"github.com/hujm2023/go-sms-protocol/smpp/smpp34"
	"golang.org/x/text/transform"

	"verif/sim/core"
	"verif/sim/simnet"
	"verif/sim/spec"
)

// hostile-link — C03. The model peer emits canonical images; the link
// corrupts them (truncation at any offset with the prefix left lying or
// rewritten, substitution of length / count octets, garbage tails, random
// octets). The receiving node does what a gateway does with an inbound frame,
// all real library code: dispatcher, IDecode, and on success String(),
// GetCommand, GenEmptyResponse + IEncode, re-IEncode, and the content parsers
// on the carried body. Oracles: no panic, termination (watchdog), allocation
// proportional to the input, error when the mandatory part is incomplete.

const hostileGroup = 640

func init() {
	Register(&Scenario{
		Name:  "hostile-link",
		Props: []string{"C03"},
		Plan: func(prop, tier string) []Batch {
			if tier == "thorough" {
				return []Batch{
					{Mode: "truncate-all", Count: 57 * 200 * hostileGroup, Exhaustive: true, Group: hostileGroup},
					{Mode: "subst-all", Count: 57 * 400 * 64, Exhaustive: true, Group: 64},
					{Mode: "text-cuts", Count: textCutCount(), Exhaustive: true},
					{Mode: "header-words", Count: 3 * 0x400, Exhaustive: true},
					{Mode: "seeded", Count: 16000000},
				}
			}
			return []Batch{
				{Mode: "truncate-all", Count: 57 * 6 * hostileGroup, Exhaustive: true, Group: hostileGroup},
				{Mode: "subst-all", Count: 57 * 12 * 64, Exhaustive: true, Group: 64},
				{Mode: "text-cuts", Count: textCutCount(), Exhaustive: true},
				{Mode: "header-words", Count: 3 * 0x400, Exhaustive: true},
				{Mode: "seeded", Count: 200000},
			}
		},
		Run:  runHostile,
		Real: []string{"per-protocol dispatchers", "IDecode of all 57 types (also with frames routed to the wrong decoder)", "String / GetCommand / GenEmptyResponse / IEncode on whatever was accepted", "ParseLongSmsContent, DecodeCMPPCContent, DecodeSMPPCContent, gsm7encoding.Unpack/Decode/transformers, ExtractDeliveryReceipt (smpp34, smgp30), SubPduDeliveryContent.IDecode, ReadTLVs/ReadTLVs1/ParseOptions/ReadOptions, TP_udhi, header peekers"},
		Stub: []string{"model peer emitting canonical images", "hostile link (truncate_frame, subst, garbage_tail, random bytes)", "allocation meter (runtime/metrics), watchdog"},
		Rule: "canonical images of all 57 types x link faults; truncate-all enumerates every truncation offset of every corpus image (prefix left as is and rewritten), subst-all every substitution of every length/count octet by {0,1,0x7f,0x80,0xff}; seeded runs combine faults and feed random octets and text to the auxiliary parsers; non-trivial = at least one fault applied; distinct = distinct event-log hash",
	})
}

const allocSlackFactor = 256
const allocSlack = 8 << 20

func (h *hostile) guarded(label string, inputLen int, f func()) bool {
	p, alloc := h.r.CallAlloc(label, f)
	if p != nil {
		h.r.Fail("C03", "panic", p.Frame, p.Kind, "%s panicked on %d input octets: %s", label, inputLen, p.Value)
		return false
	}
	if alloc > uint64(allocSlackFactor*inputLen+allocSlack) {
		h.r.Fail("C03", "alloc", label, "unchecked-length", "%s allocated %d octets for an input of %d octets", label, alloc, inputLen)
		return false
	}
	return true
}

type hostile struct {
	r *core.Run
}

// lengthFieldOffsets returns the offsets of every octet of every length or
// count field of a canonical image (header length included), from the tables.
func lengthFieldOffsets(m *spec.Msg, img []byte) []int {
	offs := []int{0, 1, 2, 3}
	pd := m.PDU
	off := pd.Proto.HeaderLen()
	refd := map[string]bool{}
	for _, f := range pd.Fields {
		if f.Ref != "" {
			refd[f.Ref] = true
		}
	}
	for _, f := range pd.Fields {
		v := m.F[f.Name]
		if v == nil {
			v = &spec.Val{}
		}
		switch f.Kind {
		case spec.KU8, spec.KU16, spec.KU32, spec.KU64:
			n := f.IntBits() / 8
			if refd[f.Name] {
				for i := 0; i < n; i++ {
					offs = append(offs, off+i)
				}
			}
			off += n
		case spec.KStr, spec.KBin:
			off += f.Width
		case spec.KCStr:
			offs = append(offs, off+len(v.B)) // the terminator is a length carrier too
			off += len(v.B) + 1
		case spec.KOctets:
			off += len(v.B)
		case spec.KRep:
			off += len(v.L) * f.Width
		case spec.KSeq3:
			off += 12
		case spec.KTLVs, spec.KOptions:
			for _, t := range v.T {
				offs = append(offs, off+2, off+3)
				off += 4 + len(t.Val)
			}
		}
	}
	var out []int
	for _, o := range offs {
		if o < len(img) {
			out = append(out, o)
		}
	}
	return out
}

var substVals = []byte{0, 1, 0x7f, 0x80, 0xff}

func genImage(c *core.Chooser, pd *spec.PDU, rich bool) (*spec.Msg, []byte, int) {
	o := spec.GenOpt{MaxDests: 3, MaxBody32: 200}
	if rich {
		o.MaxDests = 12
	}
	o.Shape = c.Pick(10, 1, 1)
	m := spec.Gen(c, pd, o)
	// make submit / deliver bodies interesting for the content parsers
	for _, f := range pd.Fields {
		if f.Kind == spec.KOctets && c.Prob(1, 2) {
			var body []byte
			switch c.Intn(5) {
			case 0:
				body = append([]byte{5, 0, 3, byte(c.Intn(256)), byte(c.Intn(4)), byte(c.Intn(4))}, c.Blob(c.Intn(40), "any")...)
			case 1:
				body = append([]byte{6, 8, 4, byte(c.Intn(256)), byte(c.Intn(256)), 2, 1}, c.Blob(c.Intn(40), "any")...)
			case 2:
				body = []byte("id:0123456789 sub:001 dlvrd:001 submit date:2401011200 done date:2401011201 stat:DELIVRD err:000 text:hello")
			case 3:
				body = gsm7encoding.Pack(c.Blob(c.Intn(60), "print"))
			default:
				sc := &cmpp.SubPduDeliveryContent{MsgID: c.Uint64(), Stat: "DELIVRD", SubmitTime: "2401011200", DoneTime: "2401011201", DestTerminalID: "8613800000000", SMSCSequence: 7}
				body, _ = sc.IEncode()
			}
			ref := pd.Field(f.Ref)
			if ref.IntBits() == 8 && len(body) > 255 {
				body = body[:255]
			}
			m.F[f.Name].B = body
			m.V(f.Ref).U = uint64(len(body))
		}
	}
	// an optional value at the edge of the 16-bit length field (re-encoding must cope)
	if pd.HasTail() && c.Prob(1, 25) {
		tail := pd.Fields[len(pd.Fields)-1]
		l := []int{65531, 65532, 65533, 65535}[c.Intn(4)]
		m.V(tail.Name).T = append(m.V(tail.Name).T, spec.Triplet{Tag: uint16(0x1400 + c.Intn(4)), Val: c.Blob(l, "any")})
	}
	img, mand := spec.Build(m)
	return m, img, mand
}

func runHostile(r *core.Run) {
	c := r.C
	h := &hostile{r: r}
	sp := Spec()
	all := sp.AllPDUs()
	switch r.Cfg.Mode {
	case "truncate-all":
		g := r.Cfg.Index / hostileGroup
		t := int(r.Cfg.Index % hostileGroup)
		pd := all[g%uint64(len(all))]
		m, img, mand := genImage(c, pd, false)
		_ = m
		rewrite := t >= hostileGroup/2
		t %= hostileGroup / 2
		if t >= len(img) {
			r.Event("trivial: offset %d beyond image of %d", t, len(img))
			return
		}
		cut := append([]byte(nil), img[:t]...)
		if rewrite && t >= 4 {
			binary.BigEndian.PutUint32(cut, uint32(t))
		}
		r.Fault("truncate_frame")
		r.Event("truncate %s at %d/%d mand=%d rewrite=%v", pd.Site(), t, len(img), mand, rewrite)
		h.receive(pd, cut, t < mand, "truncate")
		return
	case "subst-all":
		g := r.Cfg.Index / 64
		k := int(r.Cfg.Index % 64)
		pd := all[g%uint64(len(all))]
		m, img, _ := genImage(c, pd, true)
		offs := lengthFieldOffsets(m, img)
		oi, vi := k/len(substVals), k%len(substVals)
		if oi >= len(offs) {
			r.Event("trivial: %s has %d length octets", pd.Site(), len(offs))
			return
		}
		mut := append([]byte(nil), img...)
		if mut[offs[oi]] == substVals[vi] {
			r.Event("trivial: octet already %#x", substVals[vi])
			return
		}
		mut[offs[oi]] = substVals[vi]
		r.Fault("subst")
		r.Event("subst %s offset %d := %#x (len %d)", pd.Site(), offs[oi], substVals[vi], len(img))
		h.receive(pd, mut, false, "subst")
		return
	case "header-words":
		// a receiver renders what it was sent (a log line per frame): every value of the command and status words in
		// 0..0x3ff, 0x80000000..0x800003ff and 0xfffffc00..0xffffffff goes through every renderer of header values
		v := uint32(r.Cfg.Index % 0x400)
		switch r.Cfg.Index / 0x400 {
		case 1:
			v |= 0x80000000
		case 2:
			v |= 0xfffffc00
		}
		r.Fault("header_word")
		r.Event("header word %#x", v)
		h.renderWord(v)
		return
	case "text-cuts":
		t, from, to := textCut(r.Cfg.Index)
		r.Fault("text_cut")
		r.Event("text corpus %d cut [%d,%d)", t, from, to)
		h.textParsers([]byte(textCorpus[t][from:to]))
		return
	}
	// seeded: combine faults
	switch c.Pick(10, 3, 3) {
	case 1:
		h.auxParsers()
		return
	case 2:
		// whole random byte strings through every dispatcher
		n := c.Size(2000, 4, 12, 16, 20)
		if c.Prob(1, 30) {
			n = c.Range(2000, 65536)
		}
		b := c.Blob(n, "any")
		if c.Bool() && n >= 8 {
			// plausible header
			binary.BigEndian.PutUint32(b, uint32(n))
			ids := []uint32{1, 2, 3, 4, 5, 6, 7, 8, 9, 0x15, 0x80000001, 0x80000002, 0x80000003, 0x80000004, 0x80000005, 0x80000006, 0x80000009, 0x80000000}
			binary.BigEndian.PutUint32(b[4:], ids[c.Intn(len(ids))])
		}
		r.Fault("random_bytes")
		r.Event("random frame of %d octets", n)
		for _, p := range sp.Protos {
			h.dispatch(p, b, "random")
		}
		return
	}
	pd := all[c.Intn(len(all))]
	m, img, mand := genImage(c, pd, c.Bool())
	mut := append([]byte(nil), img...)
	mustErr := false
	nf := 1 + c.Intn(3)
	for i := 0; i < nf; i++ {
		switch c.Pick(3, 3, 2, 2, 1) {
		case 0: // truncate
			if len(mut) == 0 {
				continue
			}
			t := c.Intn(len(mut))
			// only a lone truncation of the untouched canonical image has a known expectation
			if t < mand && nf == 1 {
				mustErr = true
			}
			mut = mut[:t]
			if c.Bool() && t >= 4 {
				binary.BigEndian.PutUint32(mut, uint32(t))
			}
			r.Fault("truncate_frame")
		case 1: // substitute a length / count octet
			offs := lengthFieldOffsets(m, mut)
			if len(offs) == 0 {
				continue
			}
			o := offs[c.Intn(len(offs))]
			mut[o] = substVals[c.Intn(len(substVals))]
			r.Fault("subst")
		case 2: // substitute a random octet
			if len(mut) == 0 {
				continue
			}
			o := c.Intn(len(mut))
			if c.Bool() {
				mut[o] = substVals[c.Intn(len(substVals))]
			} else {
				mut[o] = byte(c.Intn(256))
			}
			r.Fault("subst_random")
		case 3: // garbage tail
			g := c.Blob(1+c.Intn(16), "any")
			mut = append(mut, g...)
			if c.Bool() && len(mut) >= 4 {
				binary.BigEndian.PutUint32(mut, uint32(len(mut)))
			}
			r.Fault("garbage_tail")
		default: // malformed optional tail: a triplet header announcing more than is there
			if pd.HasTail() {
				mut = append(mut, byte(c.Intn(256)), byte(c.Intn(256)), byte(c.Intn(256)), byte(c.Intn(256)))
				mut = append(mut, c.Blob(c.Intn(6), "any")...)
				r.Fault("malformed_tail")
			}
		}
	}
	r.Event("hostile %s img=%d mut=%d mustErr=%v", pd.Site(), len(img), len(mut), mustErr)
	h.receive(pd, mut, mustErr, "mixed")
}

// receive: what a gateway does with an inbound frame.
func (h *hostile) receive(pd *spec.PDU, frame []byte, mustErr bool, kind string) {
	r := h.r
	site := pd.Site()
	// 1. the right decoder, directly
	fresh := ctor[site]()
	var err error
	ok := h.guarded(site+".IDecode", len(frame), func() { err = fresh.IDecode(append([]byte(nil), frame...)) })
	if !ok {
		return
	}
	r.Event("IDecode -> err=%v", err != nil)
	if mustErr && err == nil {
		r.Fail("C03", "truncated-accepted", site, kind, "input of %d octets ends before the mandatory part is complete, IDecode reported success", len(frame))
	}
	if err == nil {
		h.afterAccept(fresh, site, len(frame))
	}
	// 2. through the dispatcher
	if acc := h.dispatch(pd.Proto, frame, kind); acc && mustErr {
		r.Fail("C03", "truncated-accepted", "Decode"+strings.ToUpper(pd.Proto.Name), kind, "the dispatcher reported success for %d octets of a %s whose mandatory part is incomplete", len(frame), site)
	}
	// 3. routed to a wrong decoder of the same protocol
	others := pd.Proto.PDUs
	o := others[r.C.Intn(len(others))]
	wrong := ctor[o.Site()]()
	var werr error
	if h.guarded(o.Site()+".IDecode", len(frame), func() { werr = wrong.IDecode(append([]byte(nil), frame...)) }) && werr == nil {
		h.afterAccept(wrong, o.Site(), len(frame))
	}
}

func (h *hostile) dispatch(p *spec.Proto, frame []byte, kind string) (accepted bool) {
	var pdu protocol.PDU
	var err error
	label := "Decode" + strings.ToUpper(p.Name)
	if !h.guarded(label, len(frame), func() { pdu, err = dispatcher[p.Name](append([]byte(nil), frame...)) }) {
		return false
	}
	if err == nil && pdu == nil {
		h.r.Fail("C03", "nil-nil", label, kind, "dispatcher returned neither a PDU nor an error for %d octets", len(frame))
		return false
	}
	if err == nil {
		h.afterAccept(pdu, typeSite(pdu), len(frame))
		return true
	}
	return false
}

// afterAccept exercises everything a node does with a PDU it accepted.
func (h *hostile) afterAccept(p protocol.PDU, site string, n int) {
	inLen := n + 64
	h.guarded(site+".String", inLen, func() { _ = p.String() })
	h.guarded(site+".GetCommand", inLen, func() { _ = p.GetCommand().String(); _ = p.GetSequenceID() })
	var resp protocol.PDU
	if h.guarded(site+".GenEmptyResponse", inLen, func() { resp = p.GenEmptyResponse() }) && resp != nil {
		h.guarded(site+".resp.IEncode", inLen, func() { _, _ = resp.IEncode() })
	}
	h.guarded(site+".IEncode(re)", inLen, func() { _, _ = p.IEncode() })
	// the carried body
	var body string
	var fmtCode int = -1
	switch v := p.(type) {
	case *smpp34.SubmitSm:
		body, fmtCode = string(v.ShortMessage), int(v.DataCoding)
		h.smppBody(body, fmtCode)
		return
	case *smpp34.DeliverSm:
		body, fmtCode = string(v.ShortMessage), int(v.DataCoding)
		h.smppBody(body, fmtCode)
		return
	case *smgp30.Submit:
		h.guarded("smgp.Options.TP_udhi", inLen, func() { _ = v.Options.TP_udhi(); _ = v.Options.Len(); _ = v.Options.String() })
		body, fmtCode = v.MsgContent, int(v.MsgFormat)
	case *smgp30.Deliver:
		h.guarded("smgp.Options.TP_udhi", inLen, func() { _ = v.Options.TP_udhi(); _ = v.Options.Len(); _ = v.Options.String() })
		body, fmtCode = v.MsgContent, int(v.MsgFormat)
		h.guarded("smgp30.ExtractDeliveryReceipt", len(body)+64, func() { _, _ = smgp30.ExtractDeliveryReceipt(body) })
	default:
		// CMPP / SGIP submit and deliver carry MsgContent/MessageContent + MsgFmt/MessageCoding
		m := bodyOf(p)
		if m == nil {
			return
		}
		body, fmtCode = m.body, m.coding
	}
	h.cmppBody(body, fmtCode)
}

type carried struct {
	body   string
	coding int
}

func bodyOf(p protocol.PDU) *carried {
	pd := pduSpecOf(p)
	if pd == nil {
		return nil
	}
	m := FromGo(p, pd, false)
	c := &carried{coding: -1}
	found := false
	for _, f := range pd.Fields {
		if f.Kind == spec.KOctets {
			c.body = string(m.F[f.Name].B)
			found = true
		}
		if f.Name == "Msg_Fmt" || f.Name == "MessageCoding" || f.Name == "MsgFormat" {
			c.coding = int(m.F[f.Name].U)
		}
	}
	if !found {
		return nil
	}
	return c
}

func pduSpecOf(p protocol.PDU) *spec.PDU {
	site := typeSite(p)
	parts := strings.SplitN(site, ".", 2)
	pr := Spec().Proto(parts[0])
	if pr == nil {
		return nil
	}
	return pr.PDU(parts[1])
}

func (h *hostile) cmppBody(body string, coding int) {
	n := len(body) + 64
	ctx := context.Background()
	h.guarded("ParseLongSmsContent", n, func() { _, _, _, _, _ = protocol.ParseLongSmsContent(body) })
	h.guarded("DecodeCMPPCContent", n, func() { _, _ = protocol.DecodeCMPPCContent(ctx, body, uint8(coding)) })
	h.guarded("cmpp.SubPduDeliveryContent.IDecode", n, func() { _ = new(cmpp.SubPduDeliveryContent).IDecode([]byte(body)) })
	h.guarded("cmpp.RemoveSign", n, func() { _, _ = cmpp.RemoveSign(body); _ = cmpp.ParseSignature(body) })
}

func (h *hostile) smppBody(body string, coding int) {
	n := len(body) + 64
	ctx := context.Background()
	var rest string
	h.guarded("ParseLongSmsContent", n, func() { _, _, _, rest, _ = protocol.ParseLongSmsContent(body) })
	h.guarded("DecodeSMPPCContent", n, func() { _, _ = protocol.DecodeSMPPCContent(ctx, body, coding) })
	h.guarded("DecodeSMPPCContent(rest)", n, func() { _, _ = protocol.DecodeSMPPCContent(ctx, rest, coding) })
	h.guarded("smpp34.ExtractDeliveryReceipt", n, func() { _, _ = smpp34.ExtractDeliveryReceipt(body) })
}

// auxParsers feeds arbitrary octets and text to every auxiliary parser.
func (h *hostile) auxParsers() {
	c := h.r.C
	var s []byte
	switch c.Pick(3, 2, 2, 2, 2, 3, 2, 3, 2) {
	case 5:
		// packed GSM 7-bit: septet sequences over the branch-driving alphabet, packed by the reference packer
		alpha := []byte{0x00, 0x01, 0x0d, 0x1b, 0x3f, 0x40, 0x7f, 0x65, 0x0a, 0x41}
		n := c.Size(40, 0, 1, 7, 8, 9, 15, 16)
		sept := make([]byte, n)
		for i := range sept {
			sept[i] = alpha[c.Intn(len(alpha))]
		}
		s = refPack(sept)
		if c.Prob(1, 4) {
			s = sept // the unpacked form
		}
	case 0:
		s = c.Blob(c.Size(300, 0, 1, 5, 6, 7, 8), "any")
	case 1: // near-miss concatenation headers
		heads := [][]byte{{5, 0, 3}, {5, 0, 4}, {6, 8, 4}, {6, 8, 3}, {5, 0, 3, 1, 2}, {6, 8, 4, 1, 2, 3}, {6, 8, 4, 1, 2, 3, 4}, {5, 0, 3, 255, 255, 255}}
		s = append(append([]byte(nil), heads[c.Intn(len(heads))]...), c.Blob(c.Intn(10), "any")...)
	case 2: // receipt-like text, cut anywhere
		full := "id:0123456789 sub:001 dlvrd:001 submit date:2401011200 done date:2401011201 stat:DELIVRD err:000 text:hello Sub:001 Dlvrd:001 Submit_Date:2401011200 Done_Date:2401011201 Stat:DELIVRD Err:000 Text:x"
		a := c.Intn(len(full))
		if c.Bool() {
			a = 0 // a prefix: the text ends inside a value
		}
		b := a + c.Intn(len(full)-a+1)
		if c.Prob(1, 3) {
			b = a + c.Intn(min(16, len(full)-a+1)) // ends shortly after it starts
		}
		s = []byte(full[a:b])
		switch c.Pick(2, 2, 3) {
		case 1:
			keys := []string{"Sub", "sub:", "id:", "Err", "Text", "Stat", "Dlvrd", "Done_Date", "Submit_Date", "id:123", "Sub:", "text:"}
			s = []byte(keys[c.Intn(len(keys))])
		case 2:
			// assembled receipts: key tokens in any spelling between junk of arbitrary octets, invalid UTF-8 and runes
			// whose case mappings change their encoded length; most end shortly after a key
			keys := []string{"id:", "sub:", "dlvrd:", "submit date:", "done date:", "stat:", "err:", "text:", "Sub:", "Dlvrd:", "Submit_Date:", "Done_Date:", "Stat:", "Err:", "Text:", "ID:", "STAT:", "Id:"}
			odd := []string{"\xff", "\xfe\xfd", "\xd6\xd0\xce\xc4", "\u023a", "\u212a", "\u0130", "\u1e9e", "\u00df", "\xc0\xaf", "\xed\xa0\x80", "\xf0\x9f", " ", "  ", "\x00", ":",
				// values a parser may take for numbers: signed, padded, in other bases, out of range
				"-1", "-7 ", "+2", "-0", "-001 ", "0x1F", "1e3", "-2147483649", "9223372036854775808", "00000000000000000009 "}
			s = s[:0]
			for i, n := 0, 1+c.Intn(5); i < n; i++ {
				switch c.Pick(3, 3, 2, 1) {
				case 0:
					s = append(s, keys[c.Intn(len(keys))]...)
				case 1:
					for j, m := 0, 1+c.Intn(4); j < m; j++ {
						s = append(s, odd[c.Intn(len(odd))]...)
					}
				case 2:
					s = append(s, c.Blob(c.Intn(12), "any")...)
				default:
					s = append(s, ' ')
				}
			}
			if c.Prob(2, 3) {
				s = append(s, ' ')
				s = append(s, keys[c.Intn(len(keys))]...)
				if c.Prob(1, 3) {
					// a long value from ONE narrow class of octets (UTF-8 continuation octets as in GBK text, 0xff,
					// blanks, digits): cutting or scanning such a run never meets the octet a loop waits for
					class := [][2]byte{{0x80, 0xbf}, {0xb0, 0xab}, {0xff, 0xff}, {0xc0, 0xc1}, {0x20, 0x20}, {0x30, 0x39}, {0x00, 0x00}, {0xf0, 0xf4}}[c.Intn(8)]
					run := c.Blob(1+c.Intn(48), "any")
					for i := range run {
						lo, hi := class[0], class[1]
						if hi < lo {
							lo, hi = hi, lo
						}
						run[i] = lo + run[i]%(hi-lo+1)
					}
					s = append(s, run...)
				} else {
					s = append(s, c.Blob(c.Intn(4), "digits")...)
				}
			}
		}
	case 3: // triplet-like tails
		n := c.Intn(4)
		for i := 0; i < n; i++ {
			l := c.Intn(6)
			s = append(s, byte(c.Intn(2)), byte(c.Intn(20)), 0, byte(l))
			s = append(s, c.Blob(l, "any")...)
		}
		// and a damaged end
		switch c.Intn(4) {
		case 1:
			s = append(s, 0)
		case 2:
			s = append(s, 0, 2, 0)
		case 3:
			s = append(s, 0, 2, 0xff, 0xff, 1, 2)
		}
	case 8: // digit strings (the text form of a message id), some of the digits from other scripts: the octet length
		// and the character count differ
		digs := []string{"0", "1", "5", "9", "\uff10", "\uff16", "\u0660", "\u0669", "\u09e6", "\U0001d7ce", "\u00b2"}
		for i, n := 0, 15+c.Intn(16); i < n; i++ {
			if c.Prob(1, 6) {
				s = append(s, digs[4+c.Intn(len(digs)-4)]...)
			} else {
				s = append(s, digs[c.Intn(4)]...)
			}
		}
	case 7: // bracket soup for the signature helpers: every short arrangement of brackets, blanks and letters
		toks := []string{"\u3010", "\u3011", "[", "]", " ", "a", "\u7b7e", "  ", "ab"}
		for i, n := 0, 1+c.Intn(9); i < n; i++ {
			s = append(s, toks[c.Intn(len(toks))]...)
		}
	case 6: // a stream whose length prefix is small: 0..40, then arbitrary octets
		s = append([]byte{0, 0, 0, byte(c.Intn(41))}, c.Blob(c.Size(60, 0, 7, 8, 9, 11, 12, 13), "any")...)
	default: // empty / tiny
		s = c.Blob(c.Intn(3), "any")
	}
	h.r.Fault("hostile_text")
	h.r.Event("aux parsers on %d octets %s", len(s), hexN(s, 24))
	h.textParsers(s)
}

// textCorpus: texts whose every prefix and every suffix is fed to the text
// parsers (mode text-cuts): receipts in both spellings and separators,
// concatenation headers, triplet tails, packed septets.
var textCorpus = []string{
	"id:0123456789 sub:001 dlvrd:001 submit date:2401011200 done date:2401011201 stat:DELIVRD err:000 text:hello world",
	"id:\x01\x60\x17\x12\x29\x14\x24\x10\x00\x07 sub:001 dlvrd:001 Submit date:2312291424 done date:2312291424 stat:RT:0148 err:148 Text:\x00\x00\x00",
	"id:\x04\x70\x15\x01\x16\x12\x42\x68\x61\x34sSub:001sDlvrd:000sSubmit_Date:2401161242sDone_Date:2401161242sStat:BWLISTSsErr:163sText:007BWLISTS\x00\x00",
	"Sub:001 Dlvrd:001 Submit_Date:2401011200 Done_Date:2401011201 Stat:DELIVRD Err:000 Text:x id:ABCDEFGHIJ",
	"text:a err:1 stat:S done date:1 submit date:2 dlvrd:3 sub:4 id:5",
	"\x05\x00\x03\x7f\x02\x01hello concatenated world",
	"\x06\x08\x04\x01\x02\x03\x01hello concatenated world",
	"\x00\x01\x00\x01\x07\x00\x02\x00\x01\x01\x00\x03\x00\x14ABCDEFGHIJKLMNOPQRST\x14\x00\x00\x00",
	"\xc8\x32\x9b\xfd\x06\x5d\xdf\x72\x36\x39\x04\x1b\x1e\x1b\x65\x0d",
	// signature shapes for the CMPP signature helpers: leading / trailing, both bracket kinds, nested and unbalanced
	"[sign]hello [world] bye[tail]",
	"\u3010\u7b7e\u540d\u3011\u5185\u5bb9\u3010x\u3011\u5185\u5bb9\u3010\u5c3e\u3011",
	"[[a]]b[c]]",
	"\u3010\u3010\u3011x\u3010\u3011\u3011",
	"text[]",
	"[]text",
}

// renderWord: v as command id / status / version / coding in every type of the library that renders such a word.
func (h *hostile) renderWord(v uint32) {
	r := h.r
	img := make([]byte, 20)
	binary.BigEndian.PutUint32(img, 20)
	binary.BigEndian.PutUint32(img[4:], v)
	binary.BigEndian.PutUint32(img[8:], v)
	binary.BigEndian.PutUint32(img[12:], v)
	binary.BigEndian.PutUint32(img[16:], v)
	calls := []struct {
		name string
		f    func() string
	}{
		{"smpp.Header.String", func() string { x, _ := smpp.PeekHeader(img); return x.String() }},
		{"smpp.CMDId.String", func() string { return smpp.CMDId(v).String() + smpp.CMDId(v).Error() }},
		{"smpp.CMDStatus.String", func() string { return smpp.CMDStatus(v).String() + smpp.CMDStatus(v).Error() }},
		{"cmpp.Header.String", func() string { x, _ := cmpp.PeekHeader(img); return x.String() }},
		{"cmpp.CommandID.String", func() string { return cmpp.CommandID(v).String() }},
		{"cmpp.Version.String", func() string { return cmpp.Version(v).String() }},
		{"cmpp.ConnectRespResultString", func() string { return cmpp.ConnectRespResultString(uint8(v)) }},
		{"cmpp20.SubmitRespResultString", func() string { return cmpp20.SubmitRespResultString(uint8(v)) }},
		{"smgp.CommandID.String", func() string { return smgp.CommandID(v).String() }},
		{"smgp.Status.String", func() string { return smgp.Status(v).String() + smgp.Status(v).Error().Error() }},
		{"sgip.Header.String", func() string { x, _ := sgip.PeekHeader(img); return x.String() }},
		{"sgip.CommandID.String", func() string { return sgip.CommandID(v).String() }},
		{"sgip.RespStatus.String", func() string { return sgip.RespStatus(v).String() }},
		{"datacoding.SMPPDataCoding.String", func() string {
			d := datacoding.SMPPDataCoding(int(int32(v)))
			return d.String() + fmt.Sprint(d.Priority(), d.ToInt(), d.ToUint8())
		}},
		{"datacoding.CMPPDataCoding.String", func() string {
			d := datacoding.CMPPDataCoding(int(int32(v)))
			return d.String() + fmt.Sprint(d.Priority(), d.ToInt(), d.ToUint8())
		}},
	}
	for _, cl := range calls {
		var out string
		p, alloc := r.CallAlloc(cl.name, func() { out = cl.f() })
		if p != nil {
			r.Fail("C03", "panic", p.Frame, p.Kind, "%s on header word %#x: %s", cl.name, v, p.Value)
			continue
		}
		if alloc > 1<<20 || len(out) > 1<<16 {
			r.Fail("C03", "over-allocation", cl.name, "render", "%s on header word %#x allocates %d octets for a %d-octet text", cl.name, v, alloc, len(out))
		}
	}
}

func textCutCount() uint64 {
	n := 0
	for _, t := range textCorpus {
		n += 2 * (len(t) + 1)
	}
	return uint64(n)
}

// textCut maps an index to (corpus text, from, to): every prefix, then every suffix.
func textCut(idx uint64) (int, int, int) {
	i := int(idx)
	for t, s := range textCorpus {
		n := len(s) + 1
		if i < n {
			return t, 0, i
		}
		i -= n
		if i < n {
			return t, i, len(s)
		}
		i -= n
	}
	return 0, 0, 0
}

func (h *hostile) textParsers(s []byte) {
	c := h.r.C
	_ = c
	str := string(s)
	n := len(s) + 64
	ctx := context.Background()
	h.guarded("ParseLongSmsContent", n, func() {
		k, total, idx, rest, valid := protocol.ParseLongSmsContent(str)
		if valid && len(rest) > len(str) {
			h.r.Fail("C03", "fabricated", "ParseLongSmsContent", "payload", "payload longer than the input")
		}
		_, _, _ = k, total, idx
	})
	for _, dc := range []uint8{0, 8, 9, 15, 1, 3, 4, 99, 255} {
		h.guarded("DecodeCMPPCContent", n, func() { _, _ = protocol.DecodeCMPPCContent(ctx, str, dc) })
		h.guarded("DecodeSMPPCContent", n, func() { _, _ = protocol.DecodeSMPPCContent(ctx, str, int(dc)) })
	}
	h.guarded("gsm7encoding.Unpack", n, func() { _, _ = gsm7encoding.Decode(gsm7encoding.Unpack(s)) })
	h.guarded("gsm7encoding.Decode", n, func() { _, _ = gsm7encoding.Decode(s) })
	h.guarded("gsm7encoding.Validate", n, func() {
		_ = gsm7encoding.ValidateGSM7Buffer(s)
		_ = gsm7encoding.ValidateGSM7String(str)
		_ = gsm7encoding.IsValidGSM7String(str)
	})
	for _, packed := range []bool{true, false} {
		h.guarded("gsm7encoding.GSM7.NewDecoder", n, func() { _, _, _ = transform.Bytes(gsm7encoding.GSM7(packed).NewDecoder(), s) })
		h.guarded("gsm7encoding.GSM7.NewEncoder", n, func() { _, _, _ = transform.Bytes(gsm7encoding.GSM7(packed).NewEncoder(), s) })
	}
	h.guarded("datacoding.Decode", n, func() {
		_, _ = datacoding.GSM7Packed(s).Decode()
		_, _ = datacoding.GSM7Unpacked(s).Decode()
		_, _ = datacoding.UCS2(s).Decode()
		_, _ = datacoding.GB18030(s).Decode()
		_, _ = datacoding.Latin1(s).Decode()
		_, _ = datacoding.Ascii(s).Decode()
	})
	h.guarded("datacoding.Encode", n, func() {
		_, _ = datacoding.GSM7Packed(s).Encode()
		_, _ = datacoding.GSM7Unpacked(s).Encode()
		_, _ = datacoding.UCS2(s).Encode()
		_, _ = datacoding.GB18030(s).Encode()
		_, _ = datacoding.Latin1(s).Encode()
		_, _ = datacoding.Ascii(s).Encode()
	})
	h.guarded("smpp34.ExtractDeliveryReceipt", n, func() { _, _ = smpp34.ExtractDeliveryReceipt(str) })
	h.guarded("smgp30.ExtractDeliveryReceipt", n, func() { _, _ = smgp30.ExtractDeliveryReceipt(str) })
	h.guarded("smgp30.ExtractDeliveryReceipt1", n, func() { _, _ = smgp30.ExtractDeliveryReceipt1(str) })
	h.guarded("cmpp.SubPduDeliveryContent.IDecode", n, func() { _ = new(cmpp.SubPduDeliveryContent).IDecode(s) })
	h.guarded("smpp.ReadTLVs", n, func() { _, _ = smpp.ReadTLVs(packet.NewPacketReader(append([]byte(nil), s...))) })
	h.guarded("smpp.ReadTLVs1", n, func() { _ = smpp.ReadTLVs1(packet.NewPacketReader(append([]byte(nil), s...))) })
	h.guarded("smgp.ParseOptions", n, func() {
		o, _ := smgp.ParseOptions(append([]byte(nil), s...))
		_ = o.TP_udhi()
		_ = o.Serialize()
	})
	h.guarded("smgp.ReadOptions", n, func() {
		o := smgp.ReadOptions(packet.NewPacketReader(append([]byte(nil), s...)))
		_ = o.TP_udhi()
		_ = o.String()
	})
	h.guarded("header peekers", n, func() {
		_, _ = cmpp.PeekHeader(s)
		_, _ = cmpp.NewHeaderFromBytes(s)
		_, _ = sgip.PeekHeader(s)
		_, _ = smgp.PeekHeader(s)
		_, _ = smgp.NewHeaderFromBytes(s)
		_, _ = smpp.PeekHeader(s)
	})
	h.guarded("cmpp text helpers", n, func() {
		_, _ = cmpp.Utf8ToUcs2(str)
		_ = cmpp.Utf8ToUcs2Back(str)
		_ = cmpp.Utf8ToUcs2Pooled(str)
		_, _ = cmpp.RemoveSign(str)
		_ = cmpp.ParseSignature(str)
		_ = cmpp.MsgIDString2Uint64(str)
	})
	for _, p := range Spec().Protos {
		h.dispatch(p, s, "aux")
	}
	h.framers(s)
	_ = fmt.Sprint
}

// framers hands the octets to the four frame extractors as a stream that ends after them. A blocking extractor has
// to allocate what the prefix announces before it can read it, so prefixes above 1 MiB are left to C04's own
// scenario (which bounds frame sizes); here the oracle is: no panic, no hang, no frame longer than the input.
func (h *hostile) framers(s []byte) {
	for _, it := range []struct {
		name string
		cd   codec.Codec
	}{{"CMPPCodec", codec.NewCMPPCodec()}, {"SMPPCodec", codec.NewSMPPCodec()}, {"CMPPCodec", new(codec.CMPPCodec)}, {"SMPPCodec", new(codec.SMPPCodec)}} {
		for _, blocked := range []bool{false, true} {
			site := it.name + ".Decode"
			if blocked {
				site += "Blocked"
			}
			conn := simnet.NewSimConn(simnet.Compact, 64, nil)
			conn.Arrive(s)
			conn.Fail(io.EOF)
			if len(s)%2 == 1 {
				conn.SegPeek = func(avail, n int) int { return (n + 1) / 2 } // a segmented receive buffer
			}
			got := 0
			p := h.r.Call(site, func() {
				for i := 0; i < 8; i++ {
					var f []byte
					var err error
					if nx := conn.Unread(); len(nx) >= 4 && binary.BigEndian.Uint32(nx) > 1<<20 {
						return // see above: not this scenario's question
					}
					if blocked {
						f, err = it.cd.DecodeBlocked(conn)
					} else {
						f, err = it.cd.Decode(conn)
					}
					if err != nil {
						return
					}
					got += len(f)
					if len(f) == 0 {
						return
					}
				}
			})
			if p != nil {
				h.r.Fail("C03", "panic", p.Frame, p.Kind, "%s panicked on a stream of %d octets %s: %s", site, len(s), hexN(s, 12), p.Value)
				return
			}
			if got > len(s) {
				h.r.Fail("C03", "fabricated", site, "frame-octets", "%s returned %d octets of frames from a stream of %d", site, got, len(s))
				return
			}
		}
	}
}
