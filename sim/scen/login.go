package scen

import (
	"bytes"
	"crypto/md5"
	"encoding/binary"
	"fmt"
	"time"

	protocol "github.com/hujm2023/go-sms-protocol"
	"github.com/hujm2023/go-sms-protocol/cmpp"
	"github.com/hujm2023/go-sms-protocol/cmpp/cmpp20"
	"github.com/hujm2023/go-sms-protocol/cmpp/cmpp30"
	"github.com/hujm2023/go-sms-protocol/smgp"
	"github.com/hujm2023/go-sms-protocol/smgp/smgp30"
	"github.com/hujm2023/go-sms-protocol/verifhook"

	"verif/sim/core"
)

// login — C15. Inside the bubble the scheduler first moves the clock to a
// tape-chosen instant of the year (and picks the local zone); the client calls
// the real constructors, which read that clock. The login crosses the link,
// the server decodes it, recomputes the digest independently (crypto/md5),
// accepts or rejects, answers; the client decodes the response and verifies
// the server authenticator independently.

func init() {
	Register(&Scenario{
		Pools:  true,
		Name:   "login",
		Props:  []string{"C15"},
		Bubble: true,
		Plan:   simple(30000, 10000000),
		Run:    runLogin,
		Real:   []string{"cmpp20.NewConnect, smgp30.NewLogin, cmpp.GenConnectTimestamp, cmpp.GenConnectAuth, cmpp.GenConnectRespAuthISMG (they read the simulated clock)", "IEncode / IDecode of the connect / login request and response types", "codec framers"},
		Stub:   []string{"bubble clock and local zone", "server accept/reject decision and client-side verification with an independent crypto/md5 computation", "links"},
		Rule:   "accounts of 0..6 / 0..8 octets, secrets of 0..32 octets, clock positions over the whole year (plus timestamp values no clock produces, built from fields), status codes; in a share of the runs the secret is searched so that the digest contains or ends in 0x00. Non-trivial = the clock was moved, a digest contains 0x00, or a wrong secret was used; distinct = distinct event-log hash",
	})
}

func indepDigest(account string, zeros int, secret string, ts uint32) []byte {
	h := md5.New()
	h.Write([]byte(account))
	h.Write(make([]byte, zeros))
	h.Write([]byte(secret))
	h.Write([]byte(fmt.Sprintf("%010d", ts)))
	return h.Sum(nil)
}

func indepRespDigest(status []byte, reqAuth []byte, secret string) []byte {
	h := md5.New()
	h.Write(status)
	h.Write(reqAuth)
	h.Write([]byte(secret))
	return h.Sum(nil)
}

func nulClass(d []byte) string {
	if d[len(d)-1] == 0 {
		return "trailing-nul"
	}
	if bytes.IndexByte(d, 0) >= 0 {
		return "interior-nul"
	}
	return "plain"
}

// concurrentLogins: a gateway that logs in to several carriers at once. Two to four tasks build their login with the
// library's constructors under the seeded scheduler (which can switch tasks wherever the library - or a change to it -
// takes a lock or touches an atomic, see cmd/instrument); every login must carry the digest of ITS credentials.
func concurrentLogins(r *core.Run) {
	c := r.C
	n := 2 + c.Intn(3)
	type built struct {
		flavour       int
		account, secr string
		auth          string
		ts            uint32
	}
	res := make([]built, n)
	s := core.NewSched(r)
	s.SwitchP = [2]int{1, 1}
	defer installSched(s)()
	for i := 0; i < n; i++ {
		i := i
		fl := c.Intn(2) * 2 // cmpp20 or smgp30: the two protocols with a constructor
		res[i] = built{flavour: fl, account: string(c.Blob(1+c.Intn(6), "print")), secr: string(c.Blob(1+c.Intn(20), "print"))}
		s.Go(fmt.Sprintf("client-%d", i), func() {
			b := &res[i]
			r.Call("login constructor", func() {
				if b.flavour == 0 {
					p := cmpp20.NewConnect(b.account, b.secr, uint32(100+i))
					b.auth, b.ts = p.AuthenticatorSource, p.Timestamp
				} else {
					p := smgp30.NewLogin(b.account, b.secr, uint32(100+i))
					b.auth, b.ts = p.AuthenticatorClient, p.Timestamp
				}
			})
		})
	}
	if msg := s.Run(100000, nil); msg != "" {
		r.Fail("C15", "liveness", "login constructors", "stuck", "%s", msg)
		return
	}
	r.Probe("concurrent_logins")
	for i, b := range res {
		zeros, name := 9, "cmpp20.NewConnect"
		if b.flavour == 2 {
			zeros, name = 7, "smgp30.NewLogin"
		}
		want := indepDigest(b.account, zeros, b.secr, b.ts)
		if b.auth != string(want) {
			r.Fail("C15", "wire", name, "concurrent", "client %d of %d logging in at the same time: the authenticator is not MD5 over its own credentials and timestamp %010d", i+1, n, b.ts)
			return
		}
	}
}

func runLogin(r *core.Run) {
	if r.Cfg.Index%8 == 2 {
		concurrentLogins(r)
		if len(r.Findings) > 0 {
			return
		}
	}
	// a gateway answers login N and then verifies login N+1: state left behind by one exchange
	// (pooled hash states, cached strings) must not leak into the next
	n := 1 + r.C.Intn(3)
	for i := 0; i < n && len(r.Findings) == 0; i++ {
		if i > 0 {
			r.Probe("login_after_login")
		}
		oneLogin(r)
	}
}

func oneLogin(r *core.Run) {
	c := r.C
	flavour := c.Intn(3) // 0 cmpp20, 1 cmpp30, 2 smgp30
	name := []string{"cmpp20", "cmpp30", "smgp30"}[flavour]
	maxAcc, zeros := 6, 9
	if flavour == 2 {
		maxAcc, zeros = 8, 7
	}
	account := string(c.Blob(c.Size(maxAcc, 0, maxAcc), "print"))
	secret := string(c.Blob(c.Size(32, 0, 1, 32), "print"))
	// blanks, per-cent signs and other octets a formatter or a trimmer reacts to, at the ends of the credentials
	edge := func(s string) string {
		if s == "" {
			return s
		}
		b := []byte(s)
		x := []byte{' ', '%', '\t', '0', '\\', 0x7f}[c.Intn(6)]
		switch c.Pick(6, 1, 1, 1, 1) {
		case 4:
			// a value that came out of a configuration file with its quotes still on
			if len(b) >= 2 {
				q := []byte{'"', '`', '\''}[c.Intn(3)]
				b[0], b[len(b)-1] = q, q
				if q == '\'' && len(b) > 3 {
					b = b[:3]
				}
			}
		case 1:
			b[len(b)-1] = x
		case 2:
			b[0] = x
		case 3:
			for i := range b {
				b[i] = x
			}
		}
		return string(b)
	}
	account, secret = edge(account), edge(secret)
	// clock: somewhere in the year, any zone
	zone := c.Intn(27) - 12
	old := time.Local
	time.Local = time.FixedZone("sim", zone*3600)
	defer func() { time.Local = old }()
	adv := time.Duration(c.Intn(366*24*3600)) * time.Second
	time.Sleep(adv)
	r.SimTime += adv
	if adv > 0 {
		r.Fault("clock_jump")
	}
	useClock := c.Prob(2, 3)
	var ts uint32
	if !useClock {
		ts = []uint32{0, 1, 100000000, 1231235959, 999999999, 1000000000, 229000000, 4294967295}[c.Intn(8)]
		if c.Bool() {
			ts = uint32(c.Intn(1231235960))
		}
		r.Probe("timestamp_from_fields")
	} else {
		now := time.Now()
		ts = uint32(int(now.Month())*100000000 + now.Day()*1000000 + now.Hour()*10000 + now.Minute()*100 + now.Second())
	}
	// search a secret whose digest has a 0x00 octet (about 6 %) or ends in one (1/256)
	want := c.Pick(4, 2, 2)
	if want > 0 {
		base := secret
		if len(base) > 28 {
			base = base[:28]
		}
		for i := 0; i < 3000; i++ {
			cand := fmt.Sprintf("%s%d", base, i)
			d := indepDigest(account, zeros, cand, ts)
			cl := nulClass(d)
			if (want == 1 && cl == "interior-nul") || (want == 2 && cl == "trailing-nul") {
				secret = cand
				break
			}
		}
	}
	expect := indepDigest(account, zeros, secret, ts)
	cls := nulClass(expect)
	if cls != "plain" {
		r.Probe("digest_" + cls)
	}
	serverSecret := secret
	wrong := c.Prob(1, 5)
	if wrong {
		serverSecret = secret + "x"
		r.Fault("wrong_secret")
	}
	seq := uint32(c.Uint64())
	r.Event("login %s account=%q secret=%d octets ts=%010d zone=%+d clock=%v digest=%s wrong=%v", name, account, len(secret), ts, zone, useClock, cls, wrong)

	// ---------------- client builds the request
	// the wall clock moves while the library works: at every reading of the clock (yield point "clock.read") the
	// simulated clock may be advanced, so two readings inside one constructor can fall into different seconds
	var ticked time.Duration
	if useClock && c.Prob(1, 2) {
		step := []time.Duration{300 * time.Millisecond, 700 * time.Millisecond, time.Second, 61 * time.Second}[c.Intn(4)]
		if c.Bool() {
			// start just before a second boundary
			now := time.Now()
			d := now.Truncate(time.Second).Add(time.Second - 100*time.Millisecond).Sub(now)
			if d > 0 {
				time.Sleep(d)
				r.SimTime += d
			}
			nn := time.Now()
			ts = uint32(int(nn.Month())*100000000 + nn.Day()*1000000 + nn.Hour()*10000 + nn.Minute()*100 + nn.Second())
			expect = indepDigest(account, zeros, secret, ts)
			cls = nulClass(expect)
		}
		reads := 0
		verifhook.YieldFn = func(site string, key ...int) {
			if site != "clock.read" {
				return
			}
			reads++
			if reads > 1 {
				time.Sleep(step)
				r.SimTime += step
				ticked += step
				r.Fault("clock_ticks_between_readings")
			}
		}
		defer func() { verifhook.YieldFn = nil }()
	}
	var req protocol.PDU
	var reqSite string
	switch flavour {
	case 0:
		reqSite = "cmpp20.PduConnect"
		if useClock {
			r.Call("cmpp20.NewConnect", func() { req = cmpp20.NewConnect(account, secret, seq) })
		} else {
			req = &cmpp20.PduConnect{Header: cmpp.NewHeader(0, cmpp.CommandConnect, seq), SourceAddr: account,
				AuthenticatorSource: string(cmpp.GenConnectAuth(account, secret, cmpp.TimeStamp2Str(ts))), Version: cmpp.Version20, Timestamp: ts}
		}
	case 1:
		reqSite = "cmpp30.Connect"
		if useClock {
			var s string
			var t uint32
			if c.Bool() {
				// the injected-clock seam of the API: a clock that ticks between two readings
				step := []time.Duration{0, 300 * time.Millisecond, 700 * time.Millisecond, time.Second, 61 * time.Second}[c.Intn(5)]
				k := 0
				base := time.Now()
				// start just before a second / minute boundary in some runs
				if c.Bool() {
					base = base.Truncate(time.Minute).Add(59*time.Second + 800*time.Millisecond)
				}
				tick := func() time.Time { k++; return base.Add(time.Duration(k-1) * step) }
				r.Call("cmpp.GenConnectTimestamp", func() { s, t = cmpp.GenConnectTimestamp(tick) })
				if step > 0 {
					r.Fault("clock_ticks_between_readings")
				}
				// whatever instant the library sampled, string and integer must denote the same one
				ts = t
				expect = indepDigest(account, zeros, secret, ts)
				cls = nulClass(expect)
				if s != fmt.Sprintf("%010d", t) {
					r.Fail("C15", "timestamp", reqSite, "string-vs-integer", "GenConnectTimestamp returned the string %q and the integer %010d: two different instants", s, t)
					return
				}
			} else {
				r.Call("cmpp.GenConnectTimestamp", func() { s, t = cmpp.GenConnectTimestamp(nil) })
			}
			req = &cmpp30.Connect{Header: cmpp.NewHeader(0, cmpp.CommandConnect, seq), SourceAddr: account,
				AuthenticatorSource: string(cmpp.GenConnectAuth(account, secret, s)), Version: cmpp.Version30, Timestamp: t}
		} else {
			req = &cmpp30.Connect{Header: cmpp.NewHeader(0, cmpp.CommandConnect, seq), SourceAddr: account,
				AuthenticatorSource: string(cmpp.GenConnectAuth(account, secret, cmpp.TimeStamp2Str(ts))), Version: cmpp.Version30, Timestamp: ts}
		}
	default:
		reqSite = "smgp30.Login"
		if useClock {
			r.Call("smgp30.NewLogin", func() { req = smgp30.NewLogin(account, secret, seq) })
		} else {
			req = &smgp30.Login{Header: smgp.NewHeader(0, smgp.CommandLogin, seq), ClientID: account,
				AuthenticatorClient: string(indepDigest(account, zeros, secret, ts)), LoginMode: 2, Timestamp: ts, Version: 0x30}
		}
	}
	if req == nil {
		r.Fail("C15", "panic", reqSite, "constructor", "the constructor panicked")
		return
	}
	var b []byte
	var err error
	if p := r.Call(reqSite+".IEncode", func() { b, err = req.IEncode() }); p != nil || err != nil {
		r.Fail("C15", "encode", reqSite, "error", "login request does not encode: %v", err)
		return
	}
	// the authenticator on the wire is the digest the protocol defines
	authOff := 12 + maxAcc
	if len(b) < authOff+16 {
		r.Fail("C15", "wire", reqSite, "short", "request of %d octets", len(b))
		return
	}
	wireAuth := b[authOff : authOff+16]
	tsOff := authOff + 16 + 1
	wireTS := binary.BigEndian.Uint32(b[tsOff:])
	verifhook.YieldFn = nil
	if useClock && wireTS != ts {
		// with a clock that moved during the construction any instant between the first and the last reading is a
		// correct timestamp; the authenticator must then belong to THAT instant
		okTick := false
		if ticked > 0 {
			t0 := time.Now().Add(-ticked)
			for d := time.Duration(0); d <= ticked+time.Second; d += time.Second {
				tt := t0.Add(d)
				if wireTS == uint32(int(tt.Month())*100000000+tt.Day()*1000000+tt.Hour()*10000+tt.Minute()*100+tt.Second()) {
					okTick = true
				}
			}
		}
		if !okTick {
			r.Fail("C15", "timestamp", reqSite, "clock", "the clock reads %010d (zone %+d) but the request carries timestamp %010d", ts, zone, wireTS)
			return
		}
		ts = wireTS
		expect = indepDigest(account, zeros, secret, ts)
		cls = nulClass(expect)
	}
	if !bytes.Equal(wireAuth, expect) {
		r.Fail("C15", "wire", reqSite, "digest", "authenticator on the wire %x, MD5(account, %d zero octets, secret, %010d) = %x", wireAuth, zeros, ts, expect)
		return
	}
	// ---------------- link, server
	frames, how := recvFrames(r, name, newByteLink(r, b, []int{len(b)}), 1)
	if how != "" || len(frames) != 1 {
		r.Event("link trouble: %s", how)
		return
	}
	// ---------------- in a third of the runs a proxy sits in between: it decodes the login, gives it a sequence
	// number of its own and encodes it again; "transmitted" includes that
	if c.Prob(1, 3) {
		r.Probe("login_through_a_relay")
		hop := ctor[reqSite]()
		if p := r.Call(reqSite+".IDecode", func() { err = hop.IDecode(frames[0]) }); p != nil || err != nil {
			r.Fail("C15", "decode", reqSite, "relay", "the relay cannot decode the login: %v", err)
			return
		}
		hop.SetSequenceID(seq ^ 0x01010101)
		var fb []byte
		if p := r.Call(reqSite+".IEncode", func() { fb, err = hop.IEncode() }); p != nil || err != nil {
			r.Fail("C15", "encode", reqSite, "relay/"+cls, "the relay cannot forward a login it decoded (digest class %s): %v", cls, err)
			return
		}
		frames[0] = fb
	}
	got := ctor[reqSite]()
	if p := r.Call(reqSite+".IDecode", func() { err = got.IDecode(frames[0]) }); p != nil || err != nil {
		r.Fail("C15", "decode", reqSite, "error", "the server cannot decode the login: %v", err)
		return
	}
	// the server logs the login before it verifies it
	if p := r.Call(reqSite+".String", func() { _ = got.String() }); p != nil {
		r.Fail("C15", "panic", p.Frame, "String/"+p.Kind, "logging the received login before verifying it panicked: %s", p.Value)
		return
	}
	var rcvAcc, rcvAuth string
	var rcvTS uint32
	switch v := got.(type) {
	case *cmpp20.PduConnect:
		rcvAcc, rcvAuth, rcvTS = v.SourceAddr, v.AuthenticatorSource, v.Timestamp
	case *cmpp30.Connect:
		rcvAcc, rcvAuth, rcvTS = v.SourceAddr, v.AuthenticatorSource, v.Timestamp
	case *smgp30.Login:
		rcvAcc, rcvAuth, rcvTS = v.ClientID, v.AuthenticatorClient, v.Timestamp
	}
	serverExpect := indepDigest(rcvAcc, zeros, serverSecret, rcvTS)
	accepted := bytes.Equal([]byte(rcvAuth), serverExpect)
	r.Event("server: account=%q ts=%010d authenticator %d octets accepted=%v", rcvAcc, rcvTS, len(rcvAuth), accepted)
	if wrong {
		if accepted {
			r.Fail("C15", "verify", reqSite, "wrong-secret-accepted", "the server's recomputation with a different secret equals the received authenticator")
		}
	} else if !accepted {
		if cls == "trailing-nul" && rcvAuth != string(bytes.TrimRight(serverExpect, "\x00")) {
			cls = "trailing-nul-differs" // more than the known loss of the trailing zero octets
		}
		r.Fail("C15", "verify", reqSite, cls, "correct credentials refused: received authenticator %x (%d octets), recomputed %x", rcvAuth, len(rcvAuth), serverExpect)
	}
	// ---------------- response
	status := uint32(0)
	if !accepted {
		status = 3
	}
	if c.Prob(1, 4) {
		status = uint32(c.Intn(256))
	}
	var resp protocol.PDU
	var respSite string
	var statusBytes []byte
	// the server authenticator is computed over the request authenticator as the server received it
	switch flavour {
	case 0:
		respSite = "cmpp20.PduConnectResp"
		statusBytes = []byte{byte(status)}
		var auth []byte
		r.Call("cmpp.GenConnectRespAuthISMG", func() { auth = cmpp.GenConnectRespAuthISMG(statusBytes, string(wireAuth), serverSecret) })
		ver := uint8(cmpp.Version20)
		if c.Prob(1, 3) {
			ver = []uint8{0x30, 0x21, 0x2f, 0x10, 0x00, 0xff}[c.Intn(6)]
		}
		resp = &cmpp20.PduConnectResp{Header: cmpp.NewHeader(0, cmpp.CommandConnectResp, seq), Status: uint8(status), AuthenticatorISMG: string(auth), Version: ver}
	case 1:
		respSite = "cmpp30.ConnectResp"
		statusBytes = binary.BigEndian.AppendUint32(nil, status)
		var auth []byte
		r.Call("cmpp.GenConnectRespAuthISMG", func() { auth = cmpp.GenConnectRespAuthISMG(statusBytes, string(wireAuth), serverSecret) })
		// the version octet says what the ISMG supports at most: any value, it has nothing to do with the authenticator
		ver := uint8(cmpp.Version30)
		if c.Prob(1, 3) {
			ver = []uint8{0x20, 0x21, 0x2f, 0x31, 0x00, 0xff, 0x12, 0x03}[c.Intn(8)]
		}
		resp = &cmpp30.ConnectResp{Header: cmpp.NewHeader(0, cmpp.CommandConnectResp, seq), Status: status, AuthenticatorISMG: string(auth), Version: ver}
	default:
		respSite = "smgp30.LoginResp"
		statusBytes = binary.BigEndian.AppendUint32(nil, status)
		resp = &smgp30.LoginResp{Header: smgp.NewHeader(0, smgp.CommandLoginResp, seq), Status: status, AuthenticatorServer: string(indepRespDigest(statusBytes, wireAuth, serverSecret)), ServerVersion: 0x30}
	}
	respExpect := indepRespDigest(statusBytes, wireAuth, serverSecret)
	rcls := nulClass(respExpect)
	if rcls != "plain" {
		r.Probe("resp_digest_" + rcls)
	}
	var rb []byte
	if p := r.Call(respSite+".IEncode", func() { rb, err = resp.IEncode() }); p != nil || err != nil {
		r.Fail("C15", "encode", respSite, "error", "login response does not encode: %v", err)
		return
	}
	// the response authenticator on the wire (status width differs per protocol)
	respOff := 12 + len(statusBytes)
	if len(rb) < respOff+16 || !bytes.Equal(rb[respOff:respOff+16], respExpect) {
		r.Fail("C15", "wire", respSite, "digest", "server authenticator on the wire differs from MD5(status, request authenticator, secret)")
		return
	}
	frames, how = recvFrames(r, name, newByteLink(r, rb, []int{len(rb)}), 1)
	if how != "" || len(frames) != 1 {
		return
	}
	// a client recomputes the server authenticator with the library's helper, handing it the status octets where they
	// lie: inside the frame it has just received (a sub-slice whose capacity runs on to the end of the frame). An
	// argument is read, never written - not even beyond its length
	if flavour != 2 && len(frames[0]) >= respOff+16 {
		before := append([]byte(nil), frames[0]...)
		st := frames[0][12:respOff]
		var lib []byte
		if p := r.Call("cmpp.GenConnectRespAuthISMG", func() { lib = cmpp.GenConnectRespAuthISMG(st, string(expect), serverSecret) }); p != nil {
			r.Fail("C15", "panic", p.Frame, p.Kind, "GenConnectRespAuthISMG: %s", p.Value)
			return
		}
		if !bytes.Equal(lib, respExpect) {
			r.Fail("C15", "helper", "cmpp.GenConnectRespAuthISMG", "digest", "the helper's digest differs from MD5(status, request authenticator, secret)")
		}
		if !bytes.Equal(frames[0], before) {
			r.Fail("C15", "helper", "cmpp.GenConnectRespAuthISMG", "argument-written", "the helper wrote into the buffer its status argument is a part of (the received frame changed)")
			return
		}
		r.Probe("status_argument_inside_the_frame")
	}
	gotResp := ctor[respSite]()
	if p := r.Call(respSite+".IDecode", func() { err = gotResp.IDecode(frames[0]) }); p != nil || err != nil {
		r.Fail("C15", "decode", respSite, "error", "the client cannot decode the login response: %v", err)
		return
	}
	if p := r.Call(respSite+".String", func() { _ = gotResp.String() }); p != nil {
		r.Fail("C15", "panic", p.Frame, "String/"+p.Kind, "logging the received login response before verifying it panicked: %s", p.Value)
		return
	}
	var rcvSrvAuth string
	var rcvStatus uint32
	switch v := gotResp.(type) {
	case *cmpp20.PduConnectResp:
		rcvSrvAuth, rcvStatus = v.AuthenticatorISMG, uint32(v.Status)
	case *cmpp30.ConnectResp:
		rcvSrvAuth, rcvStatus = v.AuthenticatorISMG, v.Status
	case *smgp30.LoginResp:
		rcvSrvAuth, rcvStatus = v.AuthenticatorServer, v.Status
	}
	if rcvStatus != status {
		r.Fail("C15", "status", respSite, "value", "status %d sent, %d received", status, rcvStatus)
	}
	// the client verifies the server with ITS secret
	clientExpect := indepRespDigest(statusBytes, expect, secret)
	ok := bytes.Equal([]byte(rcvSrvAuth), clientExpect)
	if wrong {
		if ok {
			r.Fail("C15", "verify", respSite, "wrong-secret-accepted", "the client's recomputation with a different secret equals the server authenticator")
		}
	} else if !ok {
		if rcls == "trailing-nul" && rcvSrvAuth != string(bytes.TrimRight(clientExpect, "\x00")) {
			rcls = "trailing-nul-differs"
		}
		r.Fail("C15", "verify", respSite, rcls, "the client cannot verify a correct server: received %x (%d octets), recomputed %x", rcvSrvAuth, len(rcvSrvAuth), clientExpect)
	}
}
