package scen

import (
	"bytes"
	"context"
	"errors"
	"fmt"
	"sort"
	"strings"
	"time"

	protocol "github.com/hujm2023/go-sms-protocol"
	"github.com/hujm2023/go-sms-protocol/cmpp"
	"github.com/hujm2023/go-sms-protocol/cmpp/cmpp20"
	"github.com/hujm2023/go-sms-protocol/cmpp/cmpp30"
	"github.com/hujm2023/go-sms-protocol/datacoding"
	"github.com/hujm2023/go-sms-protocol/smpp"
	"github.com/hujm2023/go-sms-protocol/smpp/smpp34"
	"golang.org/x/text/encoding/simplifiedchinese"

	"verif/sim/core"
)

// long-sms — C06, C07, C14. ESME tasks split texts with the library and send
// every part in its own submit PDU over a byte-preserving link to the SMSC
// (real framer + IDecode), which forwards the parts over the air link to a
// handset. The air link reorders, duplicates and interleaves the parts of
// several messages. The handset reassembles by the concatenation header
// (parsed with the library's ParseLongSmsContent) and decodes with reference
// decoders. History oracle: every submitted text is displayed exactly once,
// unaltered; nothing else is displayed.

func init() {
	Register(&Scenario{
		Pools: true,
		Name:  "long-sms",
		Props: []string{"C06", "C07", "C14"},
		Plan:  simple(20000, 1200000),
		Run:   runLongSMS,
		Real:  []string{"EncodeCMPPContentAndSplit", "EncodeSMPPContentAndSplit", "ParseLongSmsContent (handset reassembly)", "IEncode/IDecode of cmpp20.PduSubmit, cmpp30.Submit, smpp34.SubmitSm", "codec framers"},
		Stub:  []string{"ESME session logic", "SMSC forwarding", "air link (reorder, duplicate, interleave)", "handset: reassembly store + reference text decoders (GSM 7-bit table and septet unpacker told the septet count, UTF-16BE, Windows-1252, ASCII; GB18030 via x/text)", "vendor stub sending 16-bit-reference parts"},
		Rule:  "1..8 messages per run; texts biased to the single/multi thresholds (140 octets / 160 septets), to multiples of the part capacity (134 / 153) +-2 and with multi-unit characters (GSM-7 escapes, surrogate pairs, 2- and 4-octet GB18030) placed at offsets -2..+1 around part boundaries; every CMPP and SMPP coding incl. invalid numbers; air link reorders / duplicates / interleaves parts. Non-trivial = a multi-part message was produced or an air-link fault fired; distinct = distinct event-log hash",
	})
}

type family int

const (
	famASCII family = iota
	famUCS2
	famGBK
	famGSM7U
	famGSM7P
	famLatin1
	famNone
)

var famName = []string{"ASCII", "UCS2", "GB18030", "GSM7-unpacked", "GSM7-packed", "Latin1", "none"}

func cmppFamily(c int) family {
	switch c {
	case 0:
		return famASCII
	case 8, 9:
		return famUCS2
	case 15:
		return famGBK
	}
	return famNone
}

func smppFamily(c int) family {
	switch c {
	case 0:
		return famGSM7U
	case 99:
		return famGSM7P
	case 1:
		return famASCII
	case 3:
		return famLatin1
	case 8:
		return famUCS2
	}
	return famNone
}

// refEncode: the reference encoding of text under a family (units = octets, or
// septets for GSM-7), ok=false if the family cannot represent the text.
func refEncode(f family, text string) ([]byte, bool) {
	switch f {
	case famASCII:
		return []byte(text), refASCIIOK(text)
	case famUCS2:
		return refUCS2Encode(text), true
	case famGBK:
		return refGBEncode(text)
	case famGSM7U, famGSM7P:
		return refGSMEncode(text)
	case famLatin1:
		return refLatin1Encode(text)
	}
	return nil, false
}

func refDecode(f family, units []byte) (string, bool) {
	switch f {
	case famASCII:
		return string(units), refASCIIOK(string(units))
	case famUCS2:
		return refUCS2Decode(units)
	case famGBK:
		return refGBDecode(units)
	case famGSM7U, famGSM7P:
		return refGSMDecode(units)
	case famLatin1:
		return refLatin1Decode(units)
	}
	return "", false
}

// limits in units: single-SMS limit and per-part capacity
func famLimits(f family) (single, per int) {
	if f == famGSM7U || f == famGSM7P {
		return 160, 153
	}
	return 140, 134
}

// charWidths cuts the reference encoding into whole characters.
func charWidths(f family, text string) []int {
	var w []int
	for _, r := range text {
		u, _ := refEncode(f, string(r))
		w = append(w, len(u))
	}
	return w
}

func greedyParts(f family, text string) int {
	single, per := famLimits(f)
	ws := charWidths(f, text)
	total := 0
	for _, x := range ws {
		total += x
	}
	if total <= single {
		return 1
	}
	parts, cur := 1, 0
	for _, x := range ws {
		if cur+x > per {
			parts++
			cur = 0
		}
		cur += x
	}
	return parts
}

// ---------------------------------------------------------------------------
// text generator

var multiUnit = map[family][]string{
	famGSM7U:  {"[", "]", "{", "}", "^", "~", "|", "\\", "€", "\f", "\r", "@", "\r["},
	famGSM7P:  {"[", "]", "{", "}", "^", "~", "|", "\\", "€", "\f", "\r", "@", "\r["},
	famASCII:  {"\x1b", "\x00", "\x7f", "\r"},
	famLatin1: {"\x1b", "\x00", "\x7f", "\u20ac", "\u2019", "\u2026", "\u0152"},
	famUCS2: {"\ufeff", "\ufffe", "\x1b", "😀", "𝄞", "𠀀", "🚀", "🏳\ufe0f", "👨\u200d👩", "😀\u0301", "❤\ufe0f", "e\u0301", "\ufe0f", "\u200d", "👍🏽",
		// octet pairs that look like something else when read unaligned or as a marker: U+FFFD itself, U+xxFF followed by U+FDxx
		"\ufffd", "\u00ff\ufdfd", "\u4eff\ufdfc", "\ufeff\ufffe"},
	famGBK: {"中", "文", "😀", "À", "𠀀", "é", "\x1b", "€"},
}

// GB18030 characters on the edges of the octet classes (lead 0x81 / 0xFE, trail 0x40 / 0x7E / 0x80 / 0xFE, the
// first and last four-octet sequences of each block), derived through the reference codec.
func init() {
	for _, b := range [][]byte{{0x81, 0x40}, {0x81, 0x7e}, {0x81, 0x80}, {0x81, 0xfe}, {0xfe, 0x40}, {0xfe, 0x7e}, {0xfe, 0x80}, {0xfd, 0xfe}, {0xa1, 0xa1}, {0x90, 0x80},
		{0x81, 0x30, 0x81, 0x30}, {0x81, 0x39, 0xfe, 0x39}, {0x84, 0x31, 0xa4, 0x39}, {0x90, 0x30, 0x81, 0x30}, {0xe3, 0x32, 0x9a, 0x35}, {0x81, 0x30, 0x84, 0x36}} {
		t, err := simplifiedchinese.GB18030.NewDecoder().Bytes(b)
		if err != nil || strings.ContainsRune(string(t), '\ufffd') || len([]rune(string(t))) != 1 {
			continue
		}
		if back, ok := refEncode(famGBK, string(t)); ok && bytes.Equal(back, b) {
			multiUnit[famGBK] = append(multiUnit[famGBK], string(t))
		}
	}
}

var fillers = map[family]string{
	famASCII:  "abcdefghijklmnopqrstuvwxyz0123456789 ",
	famUCS2:   "abc中文дж éß",
	famGBK:    "abcdefgh xyz",
	famGSM7U:  "abcdefghijklmnopqrstuvwxyz @£$_ΔΦ0123456789\r\n",
	famGSM7P:  "abcdefghijklmnopqrstuvwxyz @£$_ΔΦ0123456789\r\n",
	famLatin1: "abcdefgh éüñß€‘’ xyz",
}

// c1Controls: code points below U+0100 that Windows-1252 (the library's "Latin1") cannot represent
// (U+0081, 8D, 8F, 90, 9D are left out: x/text maps them to themselves).
var c1Controls = []string{"\u0085", "\u0080", "\u0093", "\u0094", "\u0082", "\u009f", "\u0099"}

// genSMSText builds a text whose reference encoding under f has about target
// units, with multi-unit characters straddling the part boundaries.
func genSMSText(c *core.Chooser, f family, target int, r *core.Run) string {
	_, per := famLimits(f)
	fill := []rune(fillers[f])
	// all fillers are one unit wide except in UCS2 (2 octets each) and some in GBK/UCS2; work in characters first
	unitOf := func(s string) int { u, _ := refEncode(f, s); return len(u) }
	var sb strings.Builder
	units := 0
	specials := multiUnit[f]
	// offsets (in units) at which to try to start a multi-unit character
	want := map[int]bool{}
	if len(specials) > 0 && c.Prob(3, 4) {
		// start offsets such that a character of up to 4 units ends before, exactly at, across or right after the boundary
		span := 6
		if f == famGSM7U || f == famGSM7P {
			span = 4
		}
		for k := per; k <= target+per; k += per {
			if c.Prob(2, 3) {
				want[k+1-c.Intn(span)] = true // -(span-2)..+1 around the boundary
			}
		}
		if c.Prob(1, 3) {
			want[160-1] = true
			want[140-1] = true
		}
	}
	for units < target {
		if want[units] || (len(specials) > 0 && f == famUCS2 && want[units+1]) {
			s := specials[c.Intn(len(specials))]
			w := unitOf(s)
			if units+w <= target+3 {
				before, after := units/per, (units+w-1)/per
				if before != after && w > 1 {
					r.Probe("multiunit_straddles_" + famName[f])
				}
				sb.WriteString(s)
				units += w
				continue
			}
		}
		ch := string(fill[c.Intn(len(fill))])
		if c.Prob(1, 40) && len(specials) > 0 {
			ch = specials[c.Intn(len(specials))]
		}
		sb.WriteString(ch)
		units += unitOf(ch)
	}
	return sb.String()
}

// balanceGSM7 swaps one-octet and two-octet basic characters (same septet width, so every position stays where it is)
// until the UTF-8 length of the text equals its septet count, if that is reachable.
func balanceGSM7(text string) string {
	sept, _ := refEncode(famGSM7U, text)
	diff := len(sept) - len(text) // > 0: more septets than octets -> widen some ASCII letters
	rs := []rune(text)
	two := []rune("éñü£ΔΦ")
	for i := 0; i < len(rs) && diff != 0; i++ {
		switch {
		case diff > 0 && rs[i] >= 'a' && rs[i] <= 'z':
			rs[i] = two[i%len(two)]
			diff--
		case diff < 0 && strings.ContainsRune("éñü£ΔΦàèìòùÄÖÑÜäöåÅæÆøØßÉ¥§¿¡ΓΛΩΠΨΣΘΞ", rs[i]):
			rs[i] = 'a' + rune(i%26)
			diff++
		}
	}
	return string(rs)
}

func pickTarget(c *core.Chooser, f family) int {
	single, per := famLimits(f)
	switch c.Pick(3, 3, 4, 2, 1) {
	case 0:
		return c.Size(single, single-1, single)
	case 1:
		return single + c.Intn(4) - 1
	case 2:
		k := 1 + c.Intn(5)
		return k*per + c.Intn(5) - 2
	case 3:
		return c.Range(single, 2000)
	default:
		if c.Prob(1, 4) {
			// around the 255-part limit: just below it (boundary shifting can push the real count to 256) or just above
			if c.Bool() {
				return 255*per - c.Intn(per)
			}
			return 255*per + 1 + c.Intn(300)
		}
		return c.Range(2000, 40000)
	}
}

// ---------------------------------------------------------------------------

type lsMsg struct {
	id       int
	sender   string
	proto    string // cmpp20 | cmpp30 | smpp
	text     string
	req      int
	reqFam   family
	ref      byte
	parts    [][]byte
	actual   int
	fam      family // family the handset decodes with
	vendor   bool
	ref16    uint16
	failed   bool
	shown    int
	nearMiss bool
	viaBatch bool // split through BatchDataCodingEncoder.Build with the requested coding as the only candidate
}

type airPart struct {
	msg     *lsMsg
	udhi    bool
	payload []byte
}

// magicPrefix: beginnings whose encoding under the family is 05 00 03 ref total seq or 06 08 04 ref ref total seq
// with plausible counters - ordinary text all the same.
var magicPrefix = map[family][]string{
	famGSM7U:  {"é@¥xza", "ùòèxxza", "é@¥"},
	famGSM7P:  {"é@¥xza", "ùòèxxza", "é@¥"},
	famUCS2:   {"\u0500\u03a9\u7a61", "\u0608\u0410\u7a61\u0141", "\u0500\u0300", "\ufeff", "\ufffe", "\ufeffa"},
	famASCII:  {"\x05\x00\x03xza", "\x06\x08\x04xxza"},
	famLatin1: {"\x05\x00\x03xza", "\x06\x08\x04xxza"},
	famGBK:    {"\x05\x00\x03xza", "\x06\x08\x04xxza"},
}

// nfcUnstable: characters a Unicode normalisation would change - combining marks (after a base letter they compose),
// singleton look-alikes (OHM, KELVIN, ANGSTROM signs), a CJK compatibility ideograph. A text is the code points the
// caller passed, not their canonical equivalent.
const nfcUnstable = "\u0301\u0308\u030a\u0327\u2126\u212a\u212b\uf900\u0340\u1e9b\u0323"

// nearRepertoire: characters that sit next to a repertoire's members - case or accent variants of members, members
// that resemble non-members - so that a table entry too many or too few shows.
var nearRepertoire = map[family][]rune{
	famGSM7U:  []rune("çÇàÀáéÉèÈêíìÌóòÒôúùÙûñÑäÄöÖüÜåÅæÆøØßẞ¡¿£¥¤€¢§©µ`´^~|\\{}[]\tΩωΔδΦφΓγΛλΠπΨψΣσΘθΞξαβ\u00a0\u00ad" + nfcUnstable),
	famGSM7P:  []rune("çÇàÀáéÉèÈêíìÌóòÒôúùÙûñÑäÄöÖüÜåÅæÆøØßẞ¡¿£¥¤€¢§©µ`´^~|\\{}[]\tΩωΔδΦφΓγΛλΠπΨψΣσΘθΞξαβ\u00a0\u00ad" + nfcUnstable),
	famASCII:  []rune("\u007f\u0080\u00a0\u00e9\u00ff\u0100\u2019\u201c\t\x01" + nfcUnstable),
	famLatin1: []rune("\u0080\u0081\u008d\u0090\u009d\u009f\u00a0\u00ff\u0100\u0152\u0153\u0160\u0178\u017d\u0192\u02c6\u2013\u2022\u20ac\u2122\u2260\ufffd" + nfcUnstable),
	famUCS2:   []rune(nfcUnstable),
	famGBK:    []rune(nfcUnstable),
}

// lsBuilder: the batch builder value of the current run (see splitAndSend).
var lsBuilder *protocol.BatchDataCodingEncoder

func runLongSMS(r *core.Run) {
	c := r.C
	lsBuilder = nil
	defer installSortedOrder()()
	// the caller's context is the deployment's business (see batch.go): live, cancelled, deadline passed, with values
	ctx := context.Background()
	switch r.Cfg.Index % 16 {
	case 3:
		cc, cancel := context.WithCancel(ctx)
		cancel()
		ctx = cc
		r.Probe("context_cancelled")
	case 7:
		cc, cancel := context.WithDeadline(ctx, time.Now().Add(-time.Hour))
		defer cancel()
		ctx = cc
		r.Probe("context_deadline_passed")
	case 15:
		type key struct{}
		ctx = context.WithValue(ctx, key{}, "tenant-7")
	}
	nMsg := 1 + c.Size(3, 1)
	if c.Prob(1, 10) {
		nMsg = 4 + c.Intn(5)
	}
	var msgs []*lsMsg
	usedRef := map[string]bool{}
	afterRefusal := c.Prob(1, 25)
	if afterRefusal && nMsg < 2 {
		nMsg = 2
	}
	for i := 0; i < nMsg; i++ {
		m := &lsMsg{id: i, sender: fmt.Sprintf("s%d", c.Intn(3))}
		m.ref = byte(c.Intn(256))
		if c.Bool() {
			m.ref = []byte{0, 1, 107, 127, 128, 255}[c.Intn(6)]
		}
		// a sender does not reuse a reference while a message is in flight (no rejection loop on tape draws:
		// an exhausted replay tape yields zeros forever)
		for usedRef[fmt.Sprintf("%s/%d", m.sender, m.ref)] {
			m.ref++
		}
		usedRef[fmt.Sprintf("%s/%d", m.sender, m.ref)] = true
		switch c.Pick(3, 3, 1) {
		case 0:
			m.proto = []string{"cmpp20", "cmpp30"}[c.Intn(2)]
			m.req = []int{0, 8, 9, 15, 4, 1, 25, 255}[c.Pick(3, 3, 2, 3, 1, 1, 1, 1)]
			if m.req == 255 {
				// numbers outside one octet too, among them those whose low octet is a supported coding
				m.req = []int{255, 256, 264, 265, 271, -1, -241, -248, -256, 1 << 16, wideInt(32, 8), wideInt(40, 15)}[c.Intn(12)]
			}
			m.reqFam = cmppFamily(m.req)
		case 1:
			m.proto = "smpp"
			m.req = []int{0, 99, 1, 3, 8, 2, 4, 255}[c.Pick(3, 4, 2, 2, 3, 1, 1, 1)]
			if m.req == 255 {
				m.req = []int{255, 256, 257, 259, 264, 355, -1, -157, -248, -256, wideInt(32, 8), wideInt(40, 3)}[c.Intn(12)]
			}
			m.reqFam = smppFamily(m.req)
		default:
			m.vendor = true
			m.proto = "vendor"
			m.reqFam, m.fam = famUCS2, famUCS2
		}
		if !m.vendor && m.reqFam != famNone && c.Prob(1, 4) {
			m.viaBatch = true
		}
		// the text is generated for the requested family in most runs, for another one otherwise (forces the fallback)
		gf := m.reqFam
		if gf == famNone || c.Prob(1, 4) {
			gf = []family{famASCII, famUCS2, famGBK, famGSM7U, famLatin1}[c.Intn(5)]
		}
		target := pickTarget(c, gf)
		if m.vendor {
			target = c.Range(150, 600)
		}
		// a refused message (more than 255 parts) followed by an ordinary long one on the very same path: what the
		// refusal leaves behind must not touch the next message
		if afterRefusal && i == 0 && !m.vendor && m.reqFam != famNone {
			gf = m.reqFam
			_, per := famLimits(gf)
			target = 255*per + 1 + c.Intn(400)
			r.Probe("oversize_message_first")
		}
		if afterRefusal && i == 1 && len(msgs) == 1 && !msgs[0].vendor && msgs[0].reqFam != famNone {
			m.vendor, m.proto, m.req, m.reqFam, m.viaBatch = false, msgs[0].proto, msgs[0].req, msgs[0].reqFam, msgs[0].viaBatch
			gf = m.reqFam
			_, per := famLimits(gf)
			target = per + 1 + c.Intn(4*per)
		}
		m.text = genSMSText(c, gf, target, r)
		// UTF-8 octet count made equal to the septet count (two-octet basic characters against escaped ASCII
		// ones): two lengths that are independent in general coincide
		if (gf == famGSM7U || gf == famGSM7P) && m.text != "" && c.Prob(1, 5) {
			m.text = balanceGSM7(m.text)
			r.Probe("utf8_length_equals_septet_count")
		}
		if gf == famLatin1 && m.text != "" && c.Prob(1, 5) {
			// a text of code points < U+0100 only that the coding still cannot represent
			rs := []rune(m.text)
			for i, x := range rs {
				if x > 0xff {
					rs[i] = 'e'
				}
			}
			rs[c.Intn(len(rs))] = []rune(c1Controls[c.Intn(len(c1Controls))])[0]
			m.text = string(rs)
			r.Probe("latin1_c1_control")
		}
		// a text whose own encoding begins like a concatenation header (05 00 03 … / 06 08 04 …)
		if mp := magicPrefix[gf]; len(mp) > 0 && !m.vendor && c.Prob(1, 12) {
			m.text = mp[c.Intn(len(mp))] + m.text
			r.Probe("text_begins_like_a_header")
		}
		// one character replaced by a look-alike from just outside (or just inside) the requested repertoire: the
		// reported coding must follow the reference repertoire, not a generous table
		if nm := nearRepertoire[m.reqFam]; len(nm) > 0 && m.text != "" && !m.vendor && c.Prob(1, 6) {
			rs := []rune(m.text)
			rs[c.Intn(len(rs))] = nm[c.Intn(len(nm))]
			m.text = string(rs)
			r.Probe("near_repertoire_char")
		}
		msgs = append(msgs, m)
	}
	// two vendor messages whose 16-bit references collide when their octets are ORed
	var vend []*lsMsg
	for _, m := range msgs {
		if m.vendor {
			vend = append(vend, m)
		}
	}
	for i, m := range vend {
		m.sender = "vendor"
		pairs := [][2]uint16{{0x0102, 0x0201}, {0x0100, 0x0001}, {0x10ff, 0xff10}, {0x0304, 0x0007}}
		p := pairs[c.Intn(len(pairs))]
		m.ref16 = p[i%2] + uint16(i/2)*0x1111
		if len(vend) >= 2 {
			r.Probe("ref16_or_collision_pair")
		}
	}
	parseSideChecks(r)

	// --- ESME: split
	var air []airPart
	for _, m := range msgs {
		if m.vendor {
			air = append(air, vendorParts(m)...)
			continue
		}
		if !splitAndSend(r, ctx, m, &air) {
			m.failed = true
		}
	}
	// --- air link: reorder, duplicate, interleave
	deliveries := append([]airPart(nil), air...)
	if len(deliveries) > 1 {
		switch c.Pick(3, 3, 2) {
		case 1: // bounded reordering
			for i := 0; i < len(deliveries)-1; i++ {
				j := i + c.Intn(min(4, len(deliveries)-i))
				if j != i {
					deliveries[i], deliveries[j] = deliveries[j], deliveries[i]
					r.Fault("air_reorder")
				}
			}
		case 2: // full shuffle
			for i := 0; i < len(deliveries)-1; i++ {
				j := i + c.Intn(len(deliveries)-i)
				if j != i {
					deliveries[i], deliveries[j] = deliveries[j], deliveries[i]
					r.Fault("air_reorder")
				}
			}
		}
		nd := 0
		if c.Prob(1, 2) {
			nd = 1 + c.Intn(3)
		}
		for k := 0; k < nd; k++ {
			p := deliveries[c.Intn(len(deliveries))]
			if !p.udhi {
				continue
			}
			at := c.Intn(len(deliveries) + 1)
			deliveries = append(deliveries[:at], append([]airPart{p}, deliveries[at:]...)...)
			r.Fault("air_duplicate")
		}
	}
	// --- handset
	hs := newHandset(r)
	for _, p := range deliveries {
		hs.receive(p)
	}
	// --- history oracle
	for _, m := range msgs {
		if m.failed {
			continue
		}
		n := 0
		for _, d := range hs.shown {
			if d.sender == m.sender && d.msgID == m.id {
				n++
				if d.text != m.text {
					site := m.proto + "/" + famName[m.fam]
					i := 0
					for i < len(d.text) && i < len(m.text) && d.text[i] == m.text[i] {
						i++
					}
					kind := "altered"
					if strings.HasPrefix(m.text, d.text) {
						kind = "tail-lost"
					}
					if m.vendor {
						r.Fail("C07", "reassembly-mixed", "ParseLongSmsContent", "ref16", "vendor message ref=%#04x shows %d octets instead of %d (first difference at %d): parts of two messages were keyed alike", m.ref16, len(d.text), len(m.text), i)
					} else {
						r.Fail("C06", "content-"+kind, site, fmt.Sprintf("parts=%d", bucket(len(m.parts))), "displayed text differs from the submitted one at octet %d (submitted %d octets, displayed %d); requested coding %d", i, len(m.text), len(d.text), m.req)
					}
				}
			}
		}
		if n != 1 {
			if m.vendor {
				r.Fail("C07", "reassembly-mixed", "ParseLongSmsContent", "ref16", "vendor message ref=%#04x displayed %d times", m.ref16, n)
			} else if !hs.undecodable[m.id] {
				r.Fail("C06", "exactly-once", m.proto+"/"+famName[m.fam], fmt.Sprintf("shown=%d", min(n, 2)), "message %d (%d parts) was displayed %d times", m.id, len(m.parts), n)
			}
		}
	}
	for _, d := range hs.shown {
		if d.msgID < 0 {
			r.Fail("C06", "phantom", "handset", "display", "the handset displayed a text no one submitted: %q", trunc(d.text, 40))
		}
	}
}

func bucket(n int) int {
	switch {
	case n <= 1:
		return 1
	case n == 2:
		return 2
	case n <= 5:
		return 5
	}
	return 9
}

func trunc(s string, n int) string {
	if len(s) > n {
		return s[:n] + "…"
	}
	return s
}

// splitAndSend: the ESME splits the text and sends each part in a submit PDU
// through the link to the SMSC, which forwards the decoded parts to the air.
func splitAndSend(r *core.Run, ctx context.Context, m *lsMsg, air *[]airPart) bool {
	var parts [][]byte
	var err error
	var actual int
	label := "EncodeCMPPContentAndSplit"
	if m.proto == "smpp" {
		label = "EncodeSMPPContentAndSplit"
	}
	if m.viaBatch && m.text != "" {
		label = "BatchDataCodingEncoder.Build"
		r.Probe("split_via_batch_encoder")
	}
	p := r.Call(label, func() {
		if m.viaBatch && m.text != "" {
			pr, dc := protocol.CMPP, datacoding.ProtocolDataCoding(datacoding.CMPPDataCoding(m.req))
			if m.proto == "smpp" {
				pr, dc = protocol.SMPP, datacoding.SMPPDataCoding(m.req)
			}
			var a datacoding.ProtocolDataCoding
			// one builder value per run serves every message sent through the batch entry point; half of the time
			// it has just built the same text under the neighbouring reference
			if lsBuilder == nil {
				lsBuilder = protocol.NewBatchDataCodingEncoder()
			}
			lsBuilder.Protocol(pr).DataCodings([]datacoding.ProtocolDataCoding{dc})
			if m.id%2 == 1 {
				_, _, _ = lsBuilder.Content(m.text, m.ref+1).Build(ctx)
			}
			parts, a, err = lsBuilder.Content(m.text, m.ref).Build(ctx)
			actual = reflectInt(a)
			return
		}
		if m.proto == "smpp" {
			var a datacoding.SMPPDataCoding
			parts, a, err = protocol.EncodeSMPPContentAndSplit(ctx, m.text, datacoding.SMPPDataCoding(m.req), m.ref)
			actual = int(a)
		} else {
			var a datacoding.CMPPDataCoding
			parts, a, err = protocol.EncodeCMPPContentAndSplit(ctx, m.text, datacoding.CMPPDataCoding(m.req), m.ref)
			actual = int(a)
		}
	})
	if p != nil {
		r.Fail("C06", "panic", p.Frame, p.Kind, "%s(%d octets, coding %d): %s", label, len(m.text), m.req, p.Value)
		return false
	}
	if err != nil && ctx.Err() != nil && errors.Is(err, ctx.Err()) {
		// refusing to work for a caller that has gone away is an implementation's right; a wrong answer is not
		r.Event("msg %d refused: the context is done", m.id)
		return false
	}
	// --- expectations from the reference side
	expFam := m.reqFam
	expActual := m.req
	if _, ok := refEncode(m.reqFam, m.text); !ok || m.reqFam == famNone {
		expFam, expActual = famUCS2, 8
		r.Probe("fallback_to_ucs2")
	}
	units, _ := refEncode(expFam, m.text)
	single, per := famLimits(expFam)
	_ = per
	greedy := greedyParts(expFam, m.text)
	site := m.proto + "/" + famName[expFam]
	r.Event("msg %d %s req=%d text=%d octets units=%d greedy=%d -> parts=%d actual=%d err=%v", m.id, m.proto, m.req, len(m.text), len(units), greedy, len(parts), actual, err != nil)
	if greedy >= 254 && greedy <= 257 {
		r.Probe("part_count_at_255_limit")
	}
	if greedy > 255 {
		r.Probe("more_than_255_parts")
		// the library cuts blindly, so its own count may be lower than the greedy one; only a count > 255 must be refused
		if err == nil && len(parts) > 255 {
			r.Fail("C07", "counter-wrap", site, "parts>255", "%d parts were returned without an error (total/seq are one octet)", len(parts))
		}
		if err != nil {
			return false
		}
	} else if err != nil {
		r.Fail("C06", "split-error", site, "unexpected", "splitting %d units (%d parts expected) failed: %v", len(units), greedy, err)
		return false
	}
	m.parts = parts
	// reported coding
	if actual != expActual {
		r.Fail("C06", "reported-coding", site, fmt.Sprintf("req=%s", reqClass(m)), "requested coding %d, text representable=%v: reported %d, expected %d", m.req, expFam == m.reqFam, actual, expActual)
		// decode with what was reported if it is a known family, else with the expectation
		if m.proto == "smpp" && smppFamily(actual) != famNone {
			expFam = smppFamily(actual)
		} else if m.proto != "smpp" && cmppFamily(actual) != famNone {
			expFam = cmppFamily(actual)
		}
	}
	m.fam, m.actual = expFam, actual
	if len(parts) == 0 {
		r.Fail("C07", "no-parts", site, "empty", "no part and no error for a text of %d octets", len(m.text))
		return false
	}
	if len(parts) > 1 {
		r.Probe("multipart_" + famName[expFam])
	}
	// --- C07 per-part invariants
	if len(units) <= single {
		if len(parts) != 1 {
			r.Fail("C07", "single-split", site, "fits", "%d units fit one SMS (limit %d) but %d parts were returned", len(units), single, len(parts))
		} else if len(parts[0]) > 140 && expFam != famGSM7U || len(parts[0]) > 160 {
			r.Fail("C07", "part-too-long", site, "single", "single part of %d octets", len(parts[0]))
		}
	} else {
		if len(parts) < 2 {
			r.Fail("C07", "not-split", site, "too-long", "%d units exceed one SMS (limit %d) but %d part was returned (%d octets)", len(units), single, len(parts), len(parts[0]))
		}
		if len(parts) > greedy {
			r.Fail("C07", "too-many-parts", site, "greedy", "%d parts used, filling each part with whole characters needs %d", len(parts), greedy)
		}
		for i, pt := range parts {
			if len(pt) < 6 || pt[0] != 5 || pt[1] != 0 || pt[2] != 3 {
				r.Fail("C07", "header", site, "magic", "part %d does not start with 05 00 03: %s", i, hexN(pt, 8))
				break
			}
			if pt[3] != m.ref || int(pt[4]) != len(parts) || int(pt[5]) != i+1 {
				r.Fail("C07", "header", site, "counters", "part %d of %d carries ref=%d total=%d seq=%d (caller's ref %d)", i+1, len(parts), pt[3], pt[4], pt[5], m.ref)
				if pt[3] == m.ref && int(pt[4]) == len(parts) && pt[5] >= 1 && int(pt[5]) <= len(parts) {
					// well-formed counters in another order than the slice: "decoding the parts in order" (C06) reads the
					// slice as returned, e.g. a sender that submits parts[0], parts[1], … over a link that keeps order
					r.Fail("C06", "returned-order", site, "slice-order", "the returned slice is not in index order: position %d holds part %d of %d", i+1, pt[5], len(parts))
				}
				break
			}
			pl := len(pt) - 6
			if pl == 0 {
				r.Fail("C07", "empty-part", site, "payload", "part %d of %d has no payload", i+1, len(parts))
			}
			max := 134
			if expFam == famGSM7U {
				max = 153
			}
			if pl > max {
				r.Fail("C07", "part-too-long", site, "multi", "part %d carries %d octets of payload (limit %d)", i+1, pl, max)
			}
		}
	}
	// --- transport: one submit PDU per part, over the link, decoded at the SMSC
	udhi := len(parts) > 1
	var stream []byte
	var ends []int
	var sites []string
	for _, pt := range parts {
		var pdu protocol.PDU
		switch m.proto {
		case "cmpp20":
			pdu = &cmpp20.PduSubmit{Header: cmpp.Header{CommandID: cmpp.CommandSubmit, SequenceID: uint32(len(ends) + 1)}, PkTotal: 1, PkNumber: 1, TpUDHI: b2u(udhi), MsgFmt: uint8(actual),
				DestUsrTL: 1, DestTerminalID: []string{"8613800000000"}, MsgSrc: m.sender, MsgLength: uint8(len(pt)), MsgContent: string(pt)}
		case "cmpp30":
			pdu = &cmpp30.Submit{Header: cmpp.Header{CommandID: cmpp.CommandSubmit, SequenceID: uint32(len(ends) + 1)}, PkTotal: 1, PkNumber: 1, TpUDHI: b2u(udhi), MsgFmt: uint8(actual),
				DestUsrTL: 1, DestTerminalID: []string{"8613800000000"}, MsgSrc: m.sender, MsgLength: uint8(len(pt)), MsgContent: string(pt)}
		default:
			esm := uint8(0)
			if udhi {
				esm = 0x40
			}
			pdu = &smpp34.SubmitSm{Header: smpp.Header{ID: smpp.SUBMIT_SM, Sequence: uint32(len(ends) + 1)}, SourceAddr: m.sender, DestinationAddr: "8613800000000", ESMClass: esm,
				DataCoding: datacoding.SMPPDataCoding(actual).ToUint8(), SmLength: uint8(len(pt)), ShortMessage: pt}
		}
		if len(pt) > 255 {
			r.Fail("C07", "part-too-long", site, "pdu", "a part of %d octets does not fit the one-octet length field of the submit PDU", len(pt))
			return false
		}
		var b []byte
		var e error
		if pp := r.Call(typeSite(pdu)+".IEncode", func() { b, e = pdu.IEncode() }); pp != nil || e != nil {
			r.Event("transport: IEncode failed (%v)", e)
			return false
		}
		stream = append(stream, b...)
		ends = append(ends, len(stream))
		sites = append(sites, typeSite(pdu))
	}
	pname := m.proto
	if pname == "smpp" {
		pname = "smpp34"
	}
	frames, how := recvFrames(r, pname, newByteLink(r, stream, ends), len(ends))
	if how != "" || len(frames) != len(parts) {
		r.Event("transport trouble: %s", how)
		return false
	}
	for i, f := range frames {
		fresh := ctor[sites[i]]()
		var e error
		if pp := r.Call(sites[i]+".IDecode", func() { e = fresh.IDecode(f) }); pp != nil || e != nil {
			r.Event("transport: IDecode failed")
			return false
		}
		var payload []byte
		var u bool
		switch v := fresh.(type) {
		case *cmpp20.PduSubmit:
			payload, u = []byte(v.MsgContent), v.TpUDHI == 1
		case *cmpp30.Submit:
			payload, u = []byte(v.MsgContent), v.TpUDHI == 1
		case *smpp34.SubmitSm:
			payload, u = v.ShortMessage, v.ESMClass&0x40 != 0
		}
		if !bytes.Equal(payload, parts[i]) || u != udhi {
			r.Fail("C06", "transport", sites[i], "part", "part %d changed between ESME and SMSC", i)
			return false
		}
		*air = append(*air, airPart{msg: m, udhi: u, payload: append([]byte(nil), payload...)})
	}
	return true
}

func reqClass(m *lsMsg) string {
	if m.reqFam == famNone {
		return "invalid-number"
	}
	return "valid"
}

func b2u(b bool) uint8 {
	if b {
		return 1
	}
	return 0
}

// vendorParts: a second vendor's gateway uses the 7-octet header with a 16-bit reference.
func vendorParts(m *lsMsg) []airPart {
	units := refUCS2Encode(m.text)
	per := 132 // 140 - 7, even
	n := (len(units) + per - 1) / per
	var out []airPart
	for i := 0; i < n; i++ {
		end := min((i+1)*per, len(units))
		// keep surrogate pairs whole
		pl := units[i*per : end]
		h := []byte{6, 8, 4, byte(m.ref16 >> 8), byte(m.ref16), byte(n), byte(i + 1)}
		out = append(out, airPart{msg: m, udhi: true, payload: append(h, pl...)})
	}
	m.parts = make([][]byte, n)
	m.fam = famUCS2
	return out
}

// ---------------------------------------------------------------------------
// handset

type shownText struct {
	sender string
	msgID  int
	text   string
}

type asmKey struct {
	sender     string
	ref, total int
}

type handset struct {
	r           *core.Run
	store       map[asmKey]map[int]airPart
	done        map[asmKey]bool
	shown       []shownText
	undecodable map[int]bool
}

func newHandset(r *core.Run) *handset {
	return &handset{r: r, store: map[asmKey]map[int]airPart{}, done: map[asmKey]bool{}, undecodable: map[int]bool{}}
}

func (h *handset) receive(p airPart) {
	r := h.r
	if !p.udhi {
		h.display(p.msg, []airPart{p}, [][]byte{p.payload})
		return
	}
	var key, total, idx int
	var rest string
	var valid bool
	if pp := r.Call("ParseLongSmsContent", func() { key, total, idx, rest, valid = protocol.ParseLongSmsContent(string(p.payload)) }); pp != nil {
		r.Fail("C07", "panic", pp.Frame, pp.Kind, "ParseLongSmsContent: %s", pp.Value)
		return
	}
	if !valid {
		r.Fail("C07", "parse", "ParseLongSmsContent", "own-header", "a part produced by the splitter (%s) is reported as not concatenated", hexN(p.payload, 8))
		return
	}
	// the values parsed must be the header octets
	hl := 6
	if p.payload[0] == 6 {
		hl = 7
	}
	wantKey := int(p.payload[3])
	if hl == 7 {
		wantKey = int(p.payload[3])<<8 | int(p.payload[4])
	}
	if !p.msg.vendor && (key != wantKey || total != int(p.payload[hl-2]) || idx != int(p.payload[hl-1]) || rest != string(p.payload[hl:])) {
		r.Fail("C07", "parse", "ParseLongSmsContent", "tuple", "header %s parsed as ref=%d total=%d seq=%d payload=%d octets", hexN(p.payload[:hl], 8), key, total, idx, len(rest))
	}
	k := asmKey{p.msg.sender, key, total}
	if h.done[k] {
		r.Event("handset: duplicate part of a completed message ignored")
		return
	}
	if h.store[k] == nil {
		h.store[k] = map[int]airPart{}
	}
	if _, dup := h.store[k][idx]; dup {
		r.Event("handset: duplicate part ignored")
		return
	}
	h.store[k][idx] = airPart{msg: p.msg, udhi: true, payload: []byte(rest)}
	if len(h.store[k]) == total {
		var seq []airPart
		var payloads [][]byte
		for i := 1; i <= total; i++ {
			q, ok := h.store[k][i]
			if !ok {
				return // counters inconsistent: never completes
			}
			seq = append(seq, q)
			payloads = append(payloads, q.payload)
		}
		h.done[k] = true
		delete(h.store, k)
		h.display(seq[0].msg, seq, payloads)
	}
}

// display decodes the payloads (headers already stripped) with the reference
// decoders: (a) concatenated under the reported coding (C06), (b) part by
// part, as handsets and downstream gateways do (C14).
func (h *handset) display(m *lsMsg, parts []airPart, payloads [][]byte) {
	r := h.r
	f := m.fam
	// owner: which submitted message do these parts belong to (by identity of the first part)
	id := m.id
	for _, p := range parts {
		if p.msg != m {
			id = -2 // mixed
		}
	}
	var text string
	ok := true
	if f == famGSM7P {
		want, _ := refGSMEncode(m.text)
		text, ok = decodePackedParts(payloads, want)
	} else {
		var all []byte
		for _, p := range payloads {
			all = append(all, p...)
		}
		text, ok = refDecode(f, all)
	}
	if !ok && m.vendor {
		h.undecodable[m.id] = true
		r.Fail("C07", "reassembly-mixed", "ParseLongSmsContent", "ref16", "the reassembled vendor message ref=%#04x does not decode: parts of two messages were keyed alike", m.ref16)
		return
	}
	if !ok {
		h.undecodable[m.id] = true
		r.Fail("C06", "undecodable", m.proto+"/"+famName[f], "whole", "the reassembled message does not decode under the reported coding (%d parts)", len(payloads))
		return
	}
	if id == -2 {
		id = m.id
	}
	h.shown = append(h.shown, shownText{sender: m.sender, msgID: id, text: text})
	r.Event("handset displays message %d (%d parts, %d octets)", id, len(payloads), len(text))
	// (b) part by part
	if len(payloads) > 1 && !m.vendor {
		if f == famGSM7P {
			// the handset is told each part's septet count; accept any assignment of the possible counts
			pos := map[int]bool{0: true}
			for i, p := range payloads {
				next := map[int]bool{}
				decodable := false
				for _, n := range septetCounts(len(p)) {
					t, pok := refGSMDecode(refUnpack(p, n))
					if !pok {
						continue
					}
					decodable = true
					for at := range pos {
						if strings.HasPrefix(text[at:], t) {
							next[at+len(t)] = true
						}
					}
				}
				if !decodable {
					for _, prop := range []string{"C14", "C06"} {
						r.Fail(prop, "part-undecodable", m.proto+"/"+famName[f], "escape-pair", "packed part %d of %d does not decode on its own: an escape pair straddles the boundary", i+1, len(payloads))
					}
					return
				}
				pos = next
			}
			if !pos[len(text)] {
				for _, prop := range []string{"C14", "C06"} {
					r.Fail(prop, "parts-concat-differs", m.proto+"/"+famName[f], "text", "decoding the packed parts separately and concatenating differs from the message")
				}
			}
			return
		}
		var sb strings.Builder
		for i, p := range payloads {
			t, pok := refDecode(f, p)
			if !pok {
				// C06 reads "decoding the parts in order": a part that cannot be decoded alters the text a receiver shows
				for _, prop := range []string{"C14", "C06"} {
					r.Fail(prop, "part-undecodable", m.proto+"/"+famName[f], boundaryKind(f, p, payloads, i), "part %d of %d does not decode on its own: a character's encoding straddles the boundary (%s … %s)", i+1, len(payloads), hexN(p[:min(4, len(p))], 4), hexN(p[max(0, len(p)-4):], 4))
				}
				return
			}
			sb.WriteString(t)
			// a downstream gateway built on this library decodes the part with the library's own content decoder:
			// it must see the same characters as the reference decoder does
			if !m.vendor && m.actual >= 0 && m.actual <= 255 {
				var lt string
				var lerr error
				ctx := context.Background()
				pp := h.r.Call("DecodeContent", func() {
					if m.proto == "smpp" {
						lt, lerr = protocol.DecodeSMPPCContent(ctx, string(p), m.actual)
					} else {
						lt, lerr = protocol.DecodeCMPPCContent(ctx, string(p), uint8(m.actual))
					}
				})
				if pp != nil {
					r.Fail("C14", "panic", pp.Frame, pp.Kind, "the library's content decoder on part %d of %d: %s", i+1, len(payloads), pp.Value)
					return
				}
				if lerr != nil || lt != t {
					// C06 too: "decoding the parts in order under the reported data coding" is what a gateway built on the
					// library does with this very function
					for _, prop := range []string{"C14", "C06"} {
						r.Fail(prop, "part-decodes-differently", m.proto+"/"+famName[f], "library-decoder", "part %d of %d: the library's content decoder gives %q (%v), the reference decoder %q", i+1, len(payloads), trunc(lt, 24), lerr, trunc(t, 24))
					}
					return
				}
			}
		}
		if sb.String() != text {
			for _, prop := range []string{"C14", "C06"} {
				r.Fail(prop, "parts-concat-differs", m.proto+"/"+famName[f], "text", "decoding the parts separately and concatenating differs from the message")
			}
		}
	}
}

func boundaryKind(f family, p []byte, all [][]byte, i int) string {
	switch f {
	case famUCS2:
		if len(p)%2 != 0 {
			return "odd-octets"
		}
		return "surrogate-pair"
	case famGBK:
		return "multi-octet-char"
	case famGSM7U, famGSM7P:
		return "escape-pair"
	}
	return "other"
}

// decodePackedParts: each packed part is unpacked by a reference unpacker that
// is told the septet count, as a handset is (the count is in the TPDU). The
// count that the sender meant is recovered by matching against the septets of
// the submitted text; when no assignment of counts reproduces them, the
// concatenation under the maximal counts is shown.
func decodePackedParts(payloads [][]byte, want []byte) (string, bool) {
	// reachable positions in want after each part
	pos := map[int]bool{0: true}
	for _, p := range payloads {
		next := map[int]bool{}
		for at := range pos {
			for _, n := range septetCounts(len(p)) {
				s := refUnpack(p, n)
				if at+n <= len(want) && bytes.Equal(s, want[at:at+n]) {
					next[at+n] = true
				}
			}
		}
		pos = next
		if len(pos) == 0 {
			break
		}
	}
	if pos[len(want)] {
		return refGSMDecode(want)
	}
	var all []byte
	for _, p := range payloads {
		all = append(all, refUnpack(p, septetCounts(len(p))[0])...)
	}
	// drop a final CR that is padding by convention
	return refGSMDecode(all)
}

// ---------------------------------------------------------------------------
// parser side of C07, sampled: exact tuples for both header forms, "not
// concatenated" for every near miss.
func parseSideChecks(r *core.Run) {
	c := r.C
	n := 1 + c.Intn(3)
	for i := 0; i < n; i++ {
		ref, total, seq := c.Intn(256), c.Intn(256), c.Intn(256)
		if c.Bool() {
			e := []int{0, 1, 127, 128, 255}
			ref, total, seq = e[c.Intn(5)], e[c.Intn(5)], e[c.Intn(5)]
		}
		body := c.Blob(c.Size(20, 0, 1), "any")
		if c.Prob(1, 5) {
			// "all strings": also contents longer than one SMS, lengths around the powers of two an 8- or 16-bit
			// length computation wraps at
			body = c.Blob([]int{134, 153, 249, 250, 255, 256, 257, 505, 506, 511, 512, 600, 65530, 65536}[c.Intn(14)]+c.Intn(8)-4, "any")
		}
		var s []byte
		wantValid := true
		wantRef := ref
		hl := 6
		switch c.Pick(3, 3, 3) {
		case 0:
			s = append([]byte{5, 0, 3, byte(ref), byte(total), byte(seq)}, body...)
		case 1:
			ref16 := c.Intn(65536)
			if c.Bool() {
				ref16 = []int{0x0102, 0x0201, 0xff00, 0x00ff, 0x8000, 0xffff}[c.Intn(6)]
			}
			wantRef, hl = ref16, 7
			s = append([]byte{6, 8, 4, byte(ref16 >> 8), byte(ref16), byte(total), byte(seq)}, body...)
		default:
			wantValid = false
			near := [][]byte{{5, 0, 4, 1, 2, 1}, {5, 1, 3, 1, 2, 1}, {4, 0, 3, 1, 2, 1}, {6, 8, 4, 1, 2, 3}, {6, 8, 3, 1, 2, 3, 4}, {6, 0, 4, 1, 2, 3, 4}, {5, 0, 3, 1, 2}, {5, 0, 3}, {}, {0, 0, 0, 0, 0, 0, 0}}
			s = append([]byte(nil), near[c.Intn(len(near))]...)
			if c.Bool() {
				// systematic: every combination of the three magic octets except the two valid ones
				b0 := []byte{4, 5, 6, 7, 0x0b, 0}[c.Intn(6)]
				b1 := []byte{0, 8, 1, 5}[c.Intn(4)]
				b2 := []byte{3, 4, 0, 8}[c.Intn(4)]
				if !(b0 == 5 && b1 == 0 && b2 == 3) && !(b0 == 6 && b1 == 8 && b2 == 4) {
					s = []byte{b0, b1, b2, byte(c.Intn(256)), byte(c.Intn(4)), byte(c.Intn(4)), byte(c.Intn(4))}
				}
			}
			// "06 08 04" with exactly six octets is a near miss; with a seventh octet it would be a valid header
			if len(s) >= 6 && !(s[0] == 6 && s[1] == 8 && s[2] == 4 && len(s) == 6) {
				s = append(s, body...)
			}
			r.Probe("near_miss_header")
		}
		var k, t, x int
		var rest string
		var valid bool
		if p := r.Call("ParseLongSmsContent", func() { k, t, x, rest, valid = protocol.ParseLongSmsContent(string(s)) }); p != nil {
			r.Fail("C07", "panic", p.Frame, p.Kind, "ParseLongSmsContent(%s): %s", hexN(s, 10), p.Value)
			continue
		}
		if valid != wantValid {
			r.Fail("C07", "parse", "ParseLongSmsContent", fmt.Sprintf("valid=%v", valid), "%s reported concatenated=%v", hexN(s, 10), valid)
			continue
		}
		if !valid {
			if rest != string(s) {
				r.Fail("C07", "parse", "ParseLongSmsContent", "near-miss-payload", "a non-concatenated content came back altered")
			}
			continue
		}
		if k != wantRef || t != total || x != seq || rest != string(s[hl:]) {
			d := "tuple"
			if hl == 7 && k != wantRef {
				d = "ref16"
			}
			r.Fail("C07", "parse", "ParseLongSmsContent", d, "%s parsed as ref=%d total=%d seq=%d (+%d octets), header says ref=%d total=%d seq=%d", hexN(s[:hl], 8), k, t, x, len(rest), wantRef, total, seq)
		}
	}
	_ = sort.Ints
}
