package scen

import (
	"bytes"
	"reflect"
	"strings"

	protocol "github.com/hujm2023/go-sms-protocol"

	"verif/sim/core"
	"verif/sim/spec"
)

// relay — C11. Two hops: a peer sends images over a link to a relay gateway
// (real: frame, dispatch / IDecode, IEncode, forward), which forwards them over
// a second link to a receiver (real: frame, IDecode). The peer sends
// (a) canonical images produced by the library's own encoders, (b) conformant
// images from the model peer, (c) images that are accepted but not canonical
// (junk after the NUL inside fixed-width slots, duplicate optional tags,
// extreme values, maximum-length optional values, trailing octets, substituted
// count octets). The emission order of optional parameters at the relay is a
// tape decision.

func init() {
	Register(&Scenario{
		Pools: true,
		Name:  "relay",
		Props: []string{"C11"},
		Plan: func(prop, tier string) []Batch {
			if tier == "thorough" {
				return []Batch{{Mode: "seeded", Count: 2400000}, {Mode: "slot-sweep-wide", Count: slotSweepCount(true), Exhaustive: true}}
			}
			return []Batch{{Mode: "seeded", Count: 40000}, {Mode: "slot-sweep", Count: slotSweepCount(false), Exhaustive: true}}
		},
		Run:  runRelay,
		Real: []string{"relay gateway: codec framer, dispatcher / IDecode, IEncode", "receiver: codec framer, IDecode", "IEncode of the sending node for canonical images"},
		Stub: []string{"model peer (conformant and non-canonical images)", "two byte-preserving links with seeded cuts", "emission-order chooser for optional parameters"},
		Rule: "1..6 images per run of all 57 types: canonical (library-encoded), conformant (model peer) and accepted-but-non-canonical variants; non-trivial = a non-canonical variant, a link cut or a non-sorted emission order occurred; distinct = distinct event-log hash",
	})
}

func runRelay(r *core.Run) {
	gatewayLogsIn(r)
	c := r.C
	defer installReorder(r)()
	if strings.HasPrefix(r.Cfg.Mode, "slot-sweep") {
		// every octet value at every text-slot position (see interop): canonical images must come back bit-for-bit
		runSlotSweep(r)
		return
	}
	sp := Spec()
	proto := sp.Protos[c.Intn(len(sp.Protos))]
	n := 1 + c.Size(5, 1)
	type item struct {
		pd        *spec.PDU
		img       []byte
		canonical bool // produced by the library's encoder
		kind      string
	}
	var items []item
	var stream []byte
	var ends []int
	for i := 0; i < n; i++ {
		pd := proto.PDUs[c.Intn(len(proto.PDUs))]
		opt := spec.GenOpt{MaxDests: 3, MaxBody32: 300, BigTLV: c.Prob(1, 8), BinNoNul: c.Bool()}
		if c.Prob(1, 10) {
			opt.MaxDests = 100
		}
		opt.Shape = c.Pick(10, 1, 1)
		if (len(items)+int(r.Cfg.Index))%6 == 5 {
			opt.Twin = 1 + int(r.Cfg.Index/6)%977 // coherent address triples, two fields with one value
		} else {
			opt.Twin = 0
		}
		m := spec.Gen(c, pd, opt)
		it := item{pd: pd}
		if sib := map[string]string{"cmpp20": "cmpp30", "cmpp30": "cmpp20"}[proto.Name]; sib != "" && r.Cfg.Index%7 == 2 && len(items) == 0 && len(pd.IDs) > 0 {
			// a peer that speaks the other version of the protocol on this link: same command ids, another body layout.
			// Most such frames are refused; what IS accepted must be relayable like anything else
			for _, p2 := range sp.Protos {
				if p2.Name != sib {
					continue
				}
				for _, pd2 := range p2.PDUs {
					if len(pd2.IDs) > 0 && pd2.IDs[0] == pd.IDs[0] {
						m2 := spec.Gen(c, pd2, spec.GenOpt{MaxDests: 2, MaxBody32: 100, BinNoNul: true, Shape: int(r.Cfg.Index/7) % 3})
						it.img, _ = spec.Build(m2)
						it.kind = "other-version"
					}
				}
			}
			if it.kind != "" {
				r.Probe("frame_of_the_other_protocol_version")
				items = append(items, it)
				stream = append(stream, it.img...)
				ends = append(ends, len(stream))
				r.Event("peer sends %s %s %d octets", pd.Site(), it.kind, len(it.img))
				continue
			}
		}
		switch c.Pick(4, 3, 5) {
		case 0: // canonical: the library's own encoding
			pdu := ToGo(m)
			fillExtras(c, pdu, pd)
			var b []byte
			var err error
			if p := r.Call(pd.Site()+".IEncode", func() { b, err = pdu.IEncode() }); p != nil || err != nil {
				r.Event("sender could not encode %s: %v", pd.Site(), err)
				continue
			}
			it.img, it.canonical, it.kind = b, true, "canonical"
		case 1: // conformant image from the model peer
			it.img, _ = spec.Build(m)
			it.kind = "conformant"
		default: // accepted but not canonical
			it.kind = nonCanonical(c, r, m)
			it.img, _ = spec.Build(m)
			switch c.Pick(3, 1, 1) {
			case 1:
				it.img = append(it.img, c.Blob(1+c.Intn(8), "any")...)
				it.kind += "+trailing"
			case 2:
				offs := lengthFieldOffsets(m, it.img)
				if len(offs) > 4 {
					o := offs[4+c.Intn(len(offs)-4)] // not the prefix
					it.img[o] = substVals[c.Intn(len(substVals))]
					it.kind += "+subst-count"
				}
			}
			// the frame must stay framable: prefix = length
			it.img[0], it.img[1], it.img[2], it.img[3] = byte(len(it.img)>>24), byte(len(it.img)>>16), byte(len(it.img)>>8), byte(len(it.img))
			r.Fault("non_canonical")
		}
		items = append(items, it)
		stream = append(stream, it.img...)
		ends = append(ends, len(stream))
		r.Event("peer sends %s %s %d octets", pd.Site(), it.kind, len(it.img))
	}
	if len(items) == 0 {
		return
	}
	// ---- hop 1: relay
	frames, how := recvFrames(r, proto.Name, newByteLink(r, stream, ends), len(items))
	if how != "" || len(frames) != len(items) {
		r.Event("hop 1 framing trouble: %s", how)
		return
	}
	type fwd struct {
		it      item
		decoded protocol.PDU
		snap    any
		out     []byte
	}
	var fw []fwd
	var stream2 []byte
	var ends2 []int
	// a relay loop may decode into one value per type again and again instead of allocating
	reuse := c.Prob(1, 3)
	recv := map[string]protocol.PDU{}
	if reuse {
		r.Probe("relay_reuses_receivers")
	}
	for i, f := range frames {
		it := items[i]
		site := it.pd.Site()
		pdu := ctor[site]()
		if reuse {
			if recv[site] == nil {
				recv[site] = pdu
			}
			pdu = recv[site]
		}
		var err error
		if !reuse && (i+int(r.Cfg.Index))%2 == 1 {
			// the relay asks the dispatcher, as a gateway that does not know what arrives does
			var dp protocol.PDU
			if p := r.Call("Decode"+proto.Name, func() { dp, err = dispatcher[proto.Name](f) }); p != nil {
				r.Fail("C11", "panic", p.Frame, p.Kind, "relay dispatch of a %s image: %s", it.kind, p.Value)
				continue
			}
			if err == nil && (dp == nil || typeSite(dp) != site) {
				continue // C10's business
			}
			if err == nil {
				pdu = dp
				r.Probe("relay_via_dispatcher")
			}
		} else if p := r.Call(site+".IDecode", func() { err = pdu.IDecode(f) }); p != nil {
			r.Fail("C11", "panic", p.Frame, p.Kind, "relay IDecode of a %s image: %s", it.kind, p.Value)
			continue
		}
		if err != nil {
			if it.kind == "canonical" || it.kind == "conformant" {
				r.Event("relay refused a %s %s image: %v", it.kind, site, err)
			}
			continue // not accepted: nothing to relay
		}
		snap := deepCopy(pdu)
		if (i+int(r.Cfg.Index))%3 == 1 {
			// a relay that logs what it received before it forwards it
			if p := r.Call(site+".String", func() { _ = pdu.String() }); p != nil {
				r.Fail("C11", "panic", p.Frame, "String/"+p.Kind, "String() of an accepted %s image of %s panicked: %s", it.kind, site, p.Value)
				continue
			}
			r.Probe("relay_logs_before_forwarding")
		}
		var out []byte
		if p := r.Call(site+".IEncode", func() { out, err = pdu.IEncode() }); p != nil {
			r.Fail("C11", "panic", p.Frame, "reencode/"+p.Kind, "re-encoding an accepted %s image of %s panicked: %s", it.kind, site, p.Value)
			continue
		}
		if err != nil {
			r.Fail("C11", "reencode", site, "error", "an accepted %s image cannot be re-encoded: %v", it.kind, err)
			continue
		}
		// encoding must not disturb the decoded PDU beyond the documented normalisation
		if d := goDiff(normalised(snap, site), normalised(pdu, site)); len(d) > 0 {
			r.Fail("C11", "encode-mutates", site, "field="+d[0], "logging (String) and re-encoding (IEncode) are observers, yet field %s of the decoded value changed", d[0])
		}
		if it.canonical {
			if !sameImage(it.pd, f, out) {
				off := 0
				for off < len(f) && off < len(out) && f[off] == out[off] {
					off++
				}
				r.Fail("C11", "canonical", site, "octets", "re-encoding a canonical image differs at offset %d (%d vs %d octets)", off, len(f), len(out))
			}
		}
		fw = append(fw, fwd{it, pdu, snap, out})
		stream2 = append(stream2, out...)
		ends2 = append(ends2, len(stream2))
		// once forwarded, the relay does what it likes with the value it decoded (unless it keeps it as a receiver)
		if !reuse {
			ownerAdds(pdu)
			fillSpare(pdu)
			scribbleBytes(pdu)
		}
	}
	if len(fw) == 0 {
		return
	}
	// ---- hop 2: receiver
	frames2, how := recvFrames(r, proto.Name, newByteLink(r, stream2, ends2), len(fw))
	if how != "" || len(frames2) != len(fw) {
		r.Fail("C11", "relay-stream", proto.Name, "framing", "the relay's output stream does not frame into the %d PDUs it forwarded (%d, %s)", len(fw), len(frames2), how)
		return
	}
	for i, f := range frames2 {
		x := fw[i]
		site := x.it.pd.Site()
		fresh := ctor[site]()
		var err error
		if p := r.Call(site+".IDecode", func() { err = fresh.IDecode(f) }); p != nil {
			r.Fail("C11", "panic", p.Frame, p.Kind, "receiver IDecode: %s", p.Value)
			continue
		}
		if err != nil {
			r.Fail("C11", "second-decode", site, "error", "the relay's re-encoding of an accepted %s image is refused by the decoder: %v", x.it.kind, err)
			continue
		}
		for _, path := range goDiff(normalised(x.snap, site), fresh) {
			r.Fail("C11", "unstable", site, "field="+path, "decode -> encode -> decode changed field %s: %s became %s (%s image)", path, showField(x.snap, path), showField(fresh, path), x.it.kind)
		}
	}
}

// normalised applies the one-time normalisation the properties allow (CMPP
// 2.0 submit: all-zero part counter defaults to 1/1) to a copy.
func normalised(p any, site string) any {
	if site != "cmpp20.PduSubmit" {
		return p
	}
	cp := deepCopy(p)
	v := reflect.ValueOf(cp).Elem()
	if v.FieldByName("PkTotal").Uint() == 0 && v.FieldByName("PkNumber").Uint() == 0 {
		v.FieldByName("PkTotal").SetUint(1)
		v.FieldByName("PkNumber").SetUint(1)
	}
	return cp
}

// sameImage: bit-for-bit, the optional tail compared as an unordered set.
func sameImage(pd *spec.PDU, a, b []byte) bool {
	if bytes.Equal(a, b) {
		return true
	}
	if !pd.HasTail() || len(a) != len(b) {
		return false
	}
	ma, ea := spec.Parse(pd, a)
	mb, eb := spec.Parse(pd, b)
	if ea != nil || eb != nil {
		return false
	}
	if len(spec.Diff(ma, mb)) != 0 {
		return false
	}
	// mandatory part identical
	tail := pd.Fields[len(pd.Fields)-1].Name
	la, lb := 0, 0
	for _, t := range ma.F[tail].T {
		la += 4 + len(t.Val)
	}
	for _, t := range mb.F[tail].T {
		lb += 4 + len(t.Val)
	}
	return la == lb && bytes.Equal(a[4:len(a)-la], b[4:len(b)-lb])
}

// nonCanonical turns a well-formed assignment into one that decoders accept
// but encoders would not produce.
func nonCanonical(c *core.Chooser, r *core.Run, m *spec.Msg) string {
	pd := m.PDU
	kind := "noncanon"
	for _, f := range pd.Fields {
		v := m.F[f.Name]
		switch f.Kind {
		case spec.KStr:
			if c.Prob(1, 2) && len(v.B) < f.Width-1 {
				raw := make([]byte, f.Width)
				copy(raw, v.B)
				junk := c.Blob(f.Width-len(v.B)-1, "any")
				copy(raw[len(v.B)+1:], junk)
				v.Raw = raw
				kind = "junk-after-nul"
			}
		case spec.KU8, spec.KU16, spec.KU32, spec.KU64:
			if f.Ref == "" && c.Prob(1, 3) {
				isRef := false
				for _, g := range pd.Fields {
					if g.Ref == f.Name {
						isRef = true
					}
				}
				if !isRef {
					v.U = []uint64{0, ^uint64(0) >> (64 - uint(f.IntBits()))}[c.Intn(2)]
				}
			}
		case spec.KTLVs, spec.KOptions:
			if c.Prob(1, 2) {
				// duplicate tags, maximum-length values
				if len(v.T) > 0 && c.Bool() {
					d := v.T[c.Intn(len(v.T))]
					v.T = append(v.T, spec.Triplet{Tag: d.Tag, Val: c.Blob(c.Intn(6), "any")})
					kind = "duplicate-tag"
				}
				if c.Prob(1, 4) {
					v.T = append(v.T, spec.Triplet{Tag: uint16(0x1500 + c.Intn(8)), Val: c.Blob([]int{65531, 65532, 65535}[c.Intn(3)], "any")})
					kind = "max-length-optional"
					r.Probe("max_length_optional_value")
				}
			}
		}
	}
	return kind
}
