package scen

import (
	"bytes"
	"encoding/hex"
	"fmt"
	"os"
	"reflect"
	"sort"
	"strings"
	"sync"
	"unicode"

	protocol "github.com/hujm2023/go-sms-protocol"
	"github.com/hujm2023/go-sms-protocol/cmpp"
	"github.com/hujm2023/go-sms-protocol/cmpp/cmpp20"
	"github.com/hujm2023/go-sms-protocol/cmpp/cmpp30"
	"github.com/hujm2023/go-sms-protocol/sgip/sgip12"
	"github.com/hujm2023/go-sms-protocol/smgp"
	"github.com/hujm2023/go-sms-protocol/smgp/smgp30"
	"github.com/hujm2023/go-sms-protocol/smpp"
	"github.com/hujm2023/go-sms-protocol/smpp/smpp34"

	"verif/sim/core"
	"verif/sim/spec"
)

// The bridge connects the model peer's field values (spec.Msg) with the
// library's exported Go structs by reflection over the GoField column of
// layouts.spec. It knows nothing about the wire format.

var ctor = map[string]func() protocol.PDU{
	"cmpp20.PduConnect":        func() protocol.PDU { return new(cmpp20.PduConnect) },
	"cmpp20.PduConnectResp":    func() protocol.PDU { return new(cmpp20.PduConnectResp) },
	"cmpp20.PduTerminate":      func() protocol.PDU { return new(cmpp20.PduTerminate) },
	"cmpp20.PduTerminateResp":  func() protocol.PDU { return new(cmpp20.PduTerminateResp) },
	"cmpp20.PduSubmit":         func() protocol.PDU { return new(cmpp20.PduSubmit) },
	"cmpp20.PduSubmitResp":     func() protocol.PDU { return new(cmpp20.PduSubmitResp) },
	"cmpp20.PduQuery":          func() protocol.PDU { return new(cmpp20.PduQuery) },
	"cmpp20.PduQueryResp":      func() protocol.PDU { return new(cmpp20.PduQueryResp) },
	"cmpp20.PduDeliver":        func() protocol.PDU { return new(cmpp20.PduDeliver) },
	"cmpp20.PduDeliverResp":    func() protocol.PDU { return new(cmpp20.PduDeliverResp) },
	"cmpp20.PduActiveTest":     func() protocol.PDU { return new(cmpp20.PduActiveTest) },
	"cmpp20.PduActiveTestResp": func() protocol.PDU { return new(cmpp20.PduActiveTestResp) },

	"cmpp30.Connect":        func() protocol.PDU { return new(cmpp30.Connect) },
	"cmpp30.ConnectResp":    func() protocol.PDU { return new(cmpp30.ConnectResp) },
	"cmpp30.Terminate":      func() protocol.PDU { return new(cmpp30.Terminate) },
	"cmpp30.TerminateResp":  func() protocol.PDU { return new(cmpp30.TerminateResp) },
	"cmpp30.Submit":         func() protocol.PDU { return new(cmpp30.Submit) },
	"cmpp30.SubmitResp":     func() protocol.PDU { return new(cmpp30.SubmitResp) },
	"cmpp30.Query":          func() protocol.PDU { return new(cmpp30.Query) },
	"cmpp30.QueryResp":      func() protocol.PDU { return new(cmpp30.QueryResp) },
	"cmpp30.Deliver":        func() protocol.PDU { return new(cmpp30.Deliver) },
	"cmpp30.DeliverResp":    func() protocol.PDU { return new(cmpp30.DeliverResp) },
	"cmpp30.Cancel":         func() protocol.PDU { return new(cmpp30.Cancel) },
	"cmpp30.CancelResp":     func() protocol.PDU { return new(cmpp30.CancelResp) },
	"cmpp30.ActiveTest":     func() protocol.PDU { return new(cmpp30.ActiveTest) },
	"cmpp30.ActiveTestResp": func() protocol.PDU { return new(cmpp30.ActiveTestResp) },

	"sgip12.Bind":        func() protocol.PDU { return new(sgip12.Bind) },
	"sgip12.BindResp":    func() protocol.PDU { return new(sgip12.BindResp) },
	"sgip12.Unbind":      func() protocol.PDU { return new(sgip12.Unbind) },
	"sgip12.UnbindResp":  func() protocol.PDU { return new(sgip12.UnbindResp) },
	"sgip12.Submit":      func() protocol.PDU { return new(sgip12.Submit) },
	"sgip12.SubmitResp":  func() protocol.PDU { return new(sgip12.SubmitResp) },
	"sgip12.Deliver":     func() protocol.PDU { return new(sgip12.Deliver) },
	"sgip12.DeliverResp": func() protocol.PDU { return new(sgip12.DeliverResp) },
	"sgip12.Report":      func() protocol.PDU { return new(sgip12.Report) },
	"sgip12.ReportResp":  func() protocol.PDU { return new(sgip12.ReportResp) },

	"smgp30.Login":          func() protocol.PDU { return new(smgp30.Login) },
	"smgp30.LoginResp":      func() protocol.PDU { return new(smgp30.LoginResp) },
	"smgp30.Submit":         func() protocol.PDU { return new(smgp30.Submit) },
	"smgp30.SubmitResp":     func() protocol.PDU { return new(smgp30.SubmitResp) },
	"smgp30.Deliver":        func() protocol.PDU { return new(smgp30.Deliver) },
	"smgp30.DeliverResp":    func() protocol.PDU { return new(smgp30.DeliverResp) },
	"smgp30.ActiveTest":     func() protocol.PDU { return new(smgp30.ActiveTest) },
	"smgp30.ActiveTestResp": func() protocol.PDU { return new(smgp30.ActiveTestResp) },
	"smgp30.Exit":           func() protocol.PDU { return new(smgp30.Exit) },
	"smgp30.ExitResp":       func() protocol.PDU { return new(smgp30.ExitResp) },

	"smpp34.Bind":            func() protocol.PDU { return new(smpp34.Bind) },
	"smpp34.BindResp":        func() protocol.PDU { return new(smpp34.BindResp) },
	"smpp34.Unbind":          func() protocol.PDU { return new(smpp34.Unbind) },
	"smpp34.UnBindResp":      func() protocol.PDU { return new(smpp34.UnBindResp) },
	"smpp34.GenericNack":     func() protocol.PDU { return new(smpp34.GenericNack) },
	"smpp34.EnquireLink":     func() protocol.PDU { return new(smpp34.EnquireLink) },
	"smpp34.EnquireLinkResp": func() protocol.PDU { return new(smpp34.EnquireLinkResp) },
	"smpp34.SubmitSm":        func() protocol.PDU { return new(smpp34.SubmitSm) },
	"smpp34.SubmitSmResp":    func() protocol.PDU { return new(smpp34.SubmitSmResp) },
	"smpp34.DeliverSm":       func() protocol.PDU { return new(smpp34.DeliverSm) },
	"smpp34.DeliverSmResp":   func() protocol.PDU { return new(smpp34.DeliverSmResp) },
}

var dispatcher = map[string]func([]byte) (protocol.PDU, error){
	"cmpp20": cmpp20.DecodeCMPP20,
	"cmpp30": cmpp30.DecodeCMPP30,
	"sgip12": sgip12.DecodeSGIP12,
	"smgp30": smgp30.DecodeSMGP30,
	"smpp34": smpp34.DecodeSMPP34,
}

// hexDec: the decoder presents the 10 wire octets as 20 hex digits.
// hexEnc: the encoder expects 20 hex digits and writes the 10 octets.
var hexDec = map[string]bool{"smgp30.SubmitResp.MsgID": true, "smgp30.Deliver.MsgID": true, "smgp30.DeliverResp.MsgID": true}
var hexEnc = map[string]bool{"smgp30.DeliverResp.MsgID": true}

var (
	specOnce sync.Once
	theSpec  *spec.Spec
)

func Spec() *spec.Spec {
	specOnce.Do(func() {
		root := os.Getenv("VERIF_ROOT")
		if root == "" {
			root = "/verif"
		}
		s, err := spec.Load(root + "/spec/layouts.spec")
		if err != nil {
			panic("HARNESS: cannot load layouts.spec: " + err.Error())
		}
		for _, p := range s.AllPDUs() {
			if ctor[p.Site()] == nil {
				panic("HARNESS: no constructor for " + p.Site())
			}
		}
		theSpec = s
	})
	return theSpec
}

func typeSite(p protocol.PDU) string {
	t := reflect.TypeOf(p).Elem()
	pkg := t.PkgPath()
	return pkg[strings.LastIndexByte(pkg, '/')+1:] + "." + t.Name()
}

func headerOf(v reflect.Value) reflect.Value { return v.FieldByName("Header") }

// ToGo builds the library struct that carries the values of m (encode direction).
func ToGo(m *spec.Msg) protocol.PDU {
	p := ctor[m.PDU.Site()]()
	v := reflect.ValueOf(p).Elem()
	h := headerOf(v)
	switch m.PDU.Proto.Header {
	case "sgip20":
		h.FieldByName("CommandID").SetUint(uint64(m.CmdID))
		h.FieldByName("Sequence").Set(reflect.ValueOf(m.Seq))
	case "smpp16":
		h.FieldByName("ID").SetUint(uint64(m.CmdID))
		h.FieldByName("Status").SetUint(uint64(m.Status))
		h.FieldByName("Sequence").SetUint(uint64(m.Seq[0]))
	default:
		h.FieldByName("CommandID").SetUint(uint64(m.CmdID))
		h.FieldByName("SequenceID").SetUint(uint64(m.Seq[0]))
	}
	setFields(v, m, m.PDU.Site(), true)
	return p
}

func setFields(v reflect.Value, m *spec.Msg, site string, enc bool) {
	for _, f := range m.PDU.Fields {
		val := m.F[f.Name]
		if val == nil {
			val = &spec.Val{}
		}
		gf := v.FieldByName(f.GoField)
		if !gf.IsValid() {
			panic("HARNESS: " + site + " has no field " + f.GoField)
		}
		switch f.Kind {
		case spec.KU8, spec.KU16, spec.KU32, spec.KU64:
			gf.SetUint(val.U)
		case spec.KStr, spec.KBin, spec.KCStr, spec.KOctets:
			b := val.B
			if enc && hexEnc[site+"."+f.GoField] {
				b = []byte(hex.EncodeToString(b))
				// hex digits in either case denote the same octets (the spelling is a function of the value, so
				// that a run stays a function of its tape)
				if len(val.B) > 0 {
					switch val.B[len(val.B)-1] % 4 {
					case 1:
						b = bytes.ToUpper(b)
					case 2:
						for i := range b {
							if i%2 == 0 {
								b[i] = byte(unicode.ToUpper(rune(b[i])))
							}
						}
					}
				}
			}
			if gf.Kind() == reflect.String {
				gf.SetString(string(b))
			} else {
				gf.SetBytes(append([]byte(nil), b...))
			}
		case spec.KRep:
			l := make([]string, len(val.L))
			for i, e := range val.L {
				l[i] = string(e)
			}
			gf.Set(reflect.ValueOf(l))
		case spec.KSeq3:
			gf.Set(reflect.ValueOf(val.S))
		case spec.KTLVs:
			if len(val.T) > 0 {
				t := smpp.TLVs{}
				for _, tr := range val.T {
					t.SetTLV(smpp.NewTLV(tr.Tag, append([]byte(nil), tr.Val...)))
				}
				gf.Set(reflect.ValueOf(t))
			}
		case spec.KOptions:
			if len(val.T) > 0 {
				o := smgp.Options{}
				for _, tr := range val.T {
					o.Add(smgp.NewOption(smgp.Tag(tr.Tag), append([]byte(nil), tr.Val...)))
				}
				gf.Set(reflect.ValueOf(o))
			}
		}
	}
}

// FromGo reads the field values a library struct carries (decode direction
// when dec is true: hex-presented ids are converted back to their octets).
func FromGo(p any, pd *spec.PDU, dec bool) *spec.Msg {
	m := &spec.Msg{PDU: pd, F: map[string]*spec.Val{}}
	v := reflect.ValueOf(p).Elem()
	site := pd.Site()
	if !pd.IsBody {
		h := headerOf(v)
		switch pd.Proto.Header {
		case "sgip20":
			m.CmdID = uint32(h.FieldByName("CommandID").Uint())
			m.Seq = h.FieldByName("Sequence").Interface().([3]uint32)
			m.DeclaredLen = uint32(h.FieldByName("TotalLength").Uint())
		case "smpp16":
			m.CmdID = uint32(h.FieldByName("ID").Uint())
			m.Status = uint32(h.FieldByName("Status").Uint())
			m.Seq[0] = uint32(h.FieldByName("Sequence").Uint())
			m.DeclaredLen = uint32(h.FieldByName("Length").Uint())
		default:
			m.CmdID = uint32(h.FieldByName("CommandID").Uint())
			m.Seq[0] = uint32(h.FieldByName("SequenceID").Uint())
			m.DeclaredLen = uint32(h.FieldByName("TotalLength").Uint())
		}
	}
	for _, f := range pd.Fields {
		val := &spec.Val{}
		m.F[f.Name] = val
		gf := v.FieldByName(f.GoField)
		switch f.Kind {
		case spec.KU8, spec.KU16, spec.KU32, spec.KU64:
			val.U = gf.Uint()
		case spec.KStr, spec.KBin, spec.KCStr, spec.KOctets:
			var b []byte
			if gf.Kind() == reflect.String {
				b = []byte(gf.String())
			} else {
				b = append([]byte(nil), gf.Bytes()...)
			}
			if dec && hexDec[site+"."+f.GoField] {
				if d, err := hex.DecodeString(string(b)); err == nil {
					b = d
				}
			}
			val.B = b
		case spec.KRep:
			for i := 0; i < gf.Len(); i++ {
				val.L = append(val.L, []byte(gf.Index(i).String()))
			}
		case spec.KSeq3:
			val.S = gf.Interface().([3]uint32)
		case spec.KTLVs:
			t := gf.Interface().(smpp.TLVs)
			tags := make([]int, 0, len(t))
			for k := range t {
				tags = append(tags, int(k))
			}
			sort.Ints(tags)
			for _, k := range tags {
				val.T = append(val.T, spec.Triplet{Tag: uint16(k), Val: append([]byte(nil), t[uint16(k)].Value()...)})
			}
		case spec.KOptions:
			o := gf.Interface().(smgp.Options)
			tags := make([]int, 0, len(o))
			for k := range o {
				tags = append(tags, int(k))
			}
			sort.Ints(tags)
			for _, k := range tags {
				val.T = append(val.T, spec.Triplet{Tag: uint16(k), Val: append([]byte(nil), o[smgp.Tag(k)].Value()...)})
			}
		}
	}
	return m
}

// fillExtras sets exported integer fields of the struct that the
// specification table does not mention (e.g. smgp30.ActiveTestResp.Reserved),
// so that the round-trip covers every field the struct has.
func fillExtras(c *core.Chooser, p protocol.PDU, pd *spec.PDU) {
	v := reflect.ValueOf(p).Elem()
	t := v.Type()
	mapped := map[string]bool{"Header": true}
	for _, f := range pd.Fields {
		mapped[f.GoField] = true
	}
	for i := 0; i < t.NumField(); i++ {
		sf := t.Field(i)
		if mapped[sf.Name] || !sf.IsExported() {
			continue
		}
		fv := v.Field(i)
		switch fv.Kind() {
		case reflect.Uint8, reflect.Uint16, reflect.Uint32, reflect.Uint64:
			fv.SetUint(spec.GenInt(c, fv.Type().Bits()))
		}
	}
}

// goDiff compares two library structs field by field (nil == empty, maps as
// sets, the header length field excluded) and returns the differing paths.
func goDiff(a, b any) []string {
	var out []string
	site := ""
	if t := reflect.TypeOf(a); t.Kind() == reflect.Ptr {
		pkg := t.Elem().PkgPath()
		site = pkg[strings.LastIndexByte(pkg, '/')+1:] + "." + t.Elem().Name()
	}
	var walk func(path string, x, y reflect.Value)
	walk = func(path string, x, y reflect.Value) {
		switch x.Kind() {
		case reflect.Struct:
			for i := 0; i < x.NumField(); i++ {
				name := x.Type().Field(i).Name
				if path == "Header" && (name == "TotalLength" || name == "Length") {
					continue
				}
				p := name
				if path != "" {
					p = path + "." + name
				}
				walk(p, x.Field(i), y.Field(i))
			}
		case reflect.Slice:
			if x.Len() != y.Len() {
				out = append(out, path)
				return
			}
			if x.Type().Elem().Kind() == reflect.Uint8 {
				for i := 0; i < x.Len(); i++ {
					if x.Index(i).Uint() != y.Index(i).Uint() {
						out = append(out, path)
						return
					}
				}
				return
			}
			for i := 0; i < x.Len(); i++ {
				n := len(out)
				walk(path, x.Index(i), y.Index(i))
				if len(out) > n {
					out = out[:n+1]
					return
				}
			}
		case reflect.Array:
			for i := 0; i < x.Len(); i++ {
				n := len(out)
				walk(path, x.Index(i), y.Index(i))
				if len(out) > n {
					out = out[:n+1]
					return
				}
			}
		case reflect.Map:
			if x.Len() != y.Len() {
				out = append(out, path)
				return
			}
			it := x.MapRange()
			for it.Next() {
				yv := y.MapIndex(it.Key())
				if !yv.IsValid() {
					out = append(out, path)
					return
				}
				n := len(out)
				walk(path, it.Value(), yv)
				if len(out) > n {
					out = out[:n+1]
					return
				}
			}
		case reflect.String:
			if x.String() != y.String() {
				// a field holding hex digits on both sides denotes octets: the spelling's case is not part of the value
				if k := site + "." + path; hexEnc[k] && hexDec[k] && strings.EqualFold(x.String(), y.String()) {
					return
				}
				out = append(out, path)
			}
		case reflect.Uint, reflect.Uint8, reflect.Uint16, reflect.Uint32, reflect.Uint64:
			if x.Uint() != y.Uint() {
				out = append(out, path)
			}
		case reflect.Int, reflect.Int8, reflect.Int16, reflect.Int32, reflect.Int64:
			if x.Int() != y.Int() {
				out = append(out, path)
			}
		case reflect.Bool:
			if x.Bool() != y.Bool() {
				out = append(out, path)
			}
		case reflect.Ptr, reflect.Interface:
			if x.IsNil() != y.IsNil() {
				out = append(out, path)
			} else if !x.IsNil() {
				walk(path, x.Elem(), y.Elem())
			}
		default:
			out = append(out, path+"(uncomparable kind "+x.Kind().String()+")")
		}
	}
	walk("", reflect.ValueOf(a).Elem(), reflect.ValueOf(b).Elem())
	return out
}

// deepCopy clones a library struct (including unexported TLV / Option
// internals) so that later mutation of the original cannot affect the copy.
func deepCopy(p any) any {
	src := reflect.ValueOf(p).Elem()
	dst := reflect.New(src.Type())
	dst.Elem().Set(src)
	var fix func(v reflect.Value)
	fix = func(v reflect.Value) {
		switch v.Kind() {
		case reflect.Struct:
			for i := 0; i < v.NumField(); i++ {
				if v.Field(i).CanSet() {
					fix(v.Field(i))
				}
			}
		case reflect.Slice:
			if v.IsNil() {
				return
			}
			n := reflect.MakeSlice(v.Type(), v.Len(), v.Len())
			reflect.Copy(n, v)
			v.Set(n)
			for i := 0; i < v.Len(); i++ {
				fix(v.Index(i))
			}
		case reflect.Map:
			if v.IsNil() {
				return
			}
			switch mm := v.Interface().(type) {
			case smpp.TLVs:
				n := smpp.TLVs{}
				for k, t := range mm {
					_ = k
					n.SetTLV(smpp.NewTLV(k, append([]byte(nil), t.Value()...)))
				}
				v.Set(reflect.ValueOf(n))
			case smgp.Options:
				n := smgp.Options{}
				for k, o := range mm {
					n.Add(smgp.NewOption(k, append([]byte(nil), o.Value()...)))
				}
				v.Set(reflect.ValueOf(n))
			}
		}
	}
	fix(dst.Elem())
	return dst.Interface()
}

// headerBits reads (length, command id, sequence words) from the raw octets of an image.
func headerBits(proto *spec.Proto, img []byte) (length, cmd uint32, seq [3]uint32, ok bool) {
	if len(img) < proto.HeaderLen() {
		return
	}
	be := func(o int) uint32 {
		return uint32(img[o])<<24 | uint32(img[o+1])<<16 | uint32(img[o+2])<<8 | uint32(img[o+3])
	}
	length, cmd = be(0), be(4)
	switch proto.Header {
	case "sgip20":
		seq = [3]uint32{be(8), be(12), be(16)}
	case "smpp16":
		seq[0] = be(12)
	default:
		seq[0] = be(8)
	}
	return length, cmd, seq, true
}

func short(m map[string]string, keys []string) string {
	var sb strings.Builder
	for _, k := range keys {
		fmt.Fprintf(&sb, "%s=%s ", k, m[k])
	}
	return sb.String()
}

var _ = cmpp.HeaderLength
