package scen

import (
	"context"
	"errors"
	"fmt"
	"io"
	"sort"
	"strconv"
	"time"

	protocol "github.com/hujm2023/go-sms-protocol"
	"github.com/hujm2023/go-sms-protocol/cmpp"
	"github.com/hujm2023/go-sms-protocol/datacoding"
	"github.com/hujm2023/go-sms-protocol/logger"
	"github.com/hujm2023/go-sms-protocol/packet"
	"github.com/hujm2023/go-sms-protocol/verifhook"

	"verif/sim/core"
)

// batch — C09. One request is executed K times in one run under different
// simulator decisions: the PermuteBatch hook replays any Go map order of the
// candidate set, the seeded scheduler interleaves the errgroup workers the
// library starts itself (adopted at their first yield), and a second task
// hammers the shared buffer pools. Oracles: all K results identical; the
// winner needs the fewest parts among the candidates that can represent the
// content (ties by priority); UCS-2 fallback; the parts decode to the content.

func init() {
	logger.SetOutput(io.Discard)
	Register(&Scenario{
		Name:   "batch",
		Props:  []string{"C09"},
		Bubble: true,
		Pools:  true,
		Plan:   simple(12000, 1000000),
		Run:    runBatch,
		Real:   []string{"BatchDataCodingEncoder.Build (incl. its errgroup workers, run as scheduler tasks)", "EncodeCMPPContentAndSplit / EncodeSMPPContentAndSplit (per-candidate part counts)", "packet.Writer / cmpp.Utf8ToUcs2Pooled (pool hammer task)"},
		Stub:   []string{"request generator", "seeded cooperative scheduler (testing/synctest bubble)", "map-order chooser behind verifhook.PermuteBatch", "reference repertoire check and reference decoders"},
		Rule:   "requests = content (as C06) x non-empty candidate list (valid codings of the protocol, invalid numbers, any order, duplicates) x origin coding x protocol; each request is built K=2..8 times in one run under tape-chosen candidate order and worker interleaving. Non-trivial = a non-sorted candidate order or a preemption was chosen; distinct = distinct event-log hash (which includes every scheduling decision)",
	})
}

type batchResult struct {
	parts  [][]byte // deep copy taken at return
	live   [][]byte // what Build returned: the caller's from then on
	coding string
	err    bool
	// scribbled: the harness (as the owner) overwrote the live parts on purpose
	scribbled bool
}

func (b batchResult) String() string {
	n := 0
	for _, p := range b.parts {
		n += len(p)
	}
	return fmt.Sprintf("coding=%s parts=%d octets=%d err=%v", b.coding, len(b.parts), n, b.err)
}

func sameResult(a, b batchResult) bool {
	if a.err != b.err || a.coding != b.coding || len(a.parts) != len(b.parts) {
		return false
	}
	for i := range a.parts {
		if string(a.parts[i]) != string(b.parts[i]) {
			return false
		}
	}
	return true
}

// installSched wires the yield hook to a scheduler for the duration of a run.
func installSched(s *core.Sched) func() {
	verifhook.YieldFn = s.Yield
	return func() { verifhook.YieldFn = nil }
}

// installPermute makes the order of the candidate slice after eg.Wait() a tape
// decision: first the runtime's random map order is undone (sort by key), then
// a Fisher-Yates shuffle drawn from the tape is applied (all zeros = sorted).
func installPermute(r *core.Run) func() {
	verifhook.PermuteBatchFn = func(n int, key func(i int) [2]int, swap func(i, j int)) {
		for i := 0; i < n; i++ { // selection sort through swap
			m := i
			for j := i + 1; j < n; j++ {
				kj, km := key(j), key(m)
				if kj[0] < km[0] || (kj[0] == km[0] && kj[1] < km[1]) {
					m = j
				}
			}
			if m != i {
				swap(i, m)
			}
		}
		for i := 0; i < n-1; i++ {
			j := i + r.C.Intn(n-i)
			if j != i {
				swap(i, j)
				r.Fault("map_order")
			}
		}
	}
	return func() { verifhook.PermuteBatchFn = nil }
}

// installSortedOrder: scenarios that call Build without exploring map orders (batch does that) still take the order
// away from the Go runtime: wherever the library lets the simulator choose, the candidates come sorted. What a run
// shows is then a function of its tape alone, also for a library whose result depends on that order.
// wideInt is 1<<hi + lo where an int has 64 bits; on a 32-bit platform such a number does not exist and another
// invalid coding number that keeps the low octet takes its place (the simulator also runs as a 386 binary).
func wideInt(hi uint, lo int) int {
	if strconv.IntSize == 64 {
		return int(int64(1)<<hi + int64(lo))
	}
	return 1<<20 + lo
}

func installSortedOrder() func() {
	verifhook.PermuteBatchFn = func(n int, key func(i int) [2]int, swap func(i, j int)) {
		for i := 0; i < n; i++ {
			m := i
			for j := i + 1; j < n; j++ {
				kj, km := key(j), key(m)
				if kj[0] < km[0] || (kj[0] == km[0] && kj[1] < km[1]) {
					m = j
				}
			}
			if m != i {
				swap(i, m)
			}
		}
	}
	return func() { verifhook.PermuteBatchFn = nil }
}

func runBatch(r *core.Run) {
	c := r.C
	// the caller's context is part of the deployment, not of the request: a live one, one that was cancelled before
	// the call, one whose deadline has passed, one whose deadline passes while the workers run (the scheduler moves
	// the simulated clock), one that carries values. A function of the run index. The reference calls use bg.
	bg := context.Background()
	ctx := bg
	ctxKind := "live"
	expireAtStep := -1
	switch r.Cfg.Index % 16 {
	case 3:
		cc, cancel := context.WithCancel(bg)
		cancel()
		ctx, ctxKind = cc, "cancelled"
	case 7:
		cc, cancel := context.WithDeadline(bg, time.Now().Add(-time.Hour))
		defer cancel()
		ctx, ctxKind = cc, "deadline-passed"
	case 11:
		cc, cancel := context.WithTimeout(bg, time.Millisecond)
		defer cancel()
		ctx, ctxKind = cc, "deadline-passes-meanwhile"
		expireAtStep = 1 + int(r.Cfg.Index/16)%24
	case 15:
		type key struct{}
		ctx, ctxKind = context.WithValue(bg, key{}, "tenant-7"), "values"
	}
	if ctxKind != "live" {
		r.Probe("context_" + ctxKind)
		r.Event("context %s", ctxKind)
	}
	ctxRefused := false
	isSMPP := c.Bool()
	valid := []int{0, 8, 9, 15}
	invalid := []int{1, 3, 4, 25, 99, 255, 256, 264, 265, 271, -248, -241, wideInt(32, 8), wideInt(32, 15)}
	famOf := cmppFamily
	if isSMPP {
		valid = []int{0, 1, 3, 8, 99}
		invalid = []int{2, 4, 9, 15, 255, 256, 257, 259, 264, 355, -248, -157, wideInt(32, 8), wideInt(32, 3)}
		famOf = smppFamily
	}
	mk := func(n int) datacoding.ProtocolDataCoding {
		if isSMPP {
			return datacoding.SMPPDataCoding(n)
		}
		return datacoding.CMPPDataCoding(n)
	}
	// the log level is a deployment's choice; the result of a request must not depend on it
	if c.Prob(1, 3) {
		lv := logger.Level(c.Intn(7))
		logger.SetLevel(lv)
		defer logger.SetLevel(logger.LevelTrace)
		r.Probe("log_level_raised")
		r.Event("log level %d", int(lv))
	}
	// candidates
	nc := 1 + c.Size(5, 1, 2)
	var cands []int
	for i := 0; i < nc; i++ {
		if c.Prob(1, 6) {
			cands = append(cands, invalid[c.Intn(len(invalid))])
		} else {
			cands = append(cands, valid[c.Intn(len(valid))])
		}
	}
	origin := -1
	switch c.Pick(3, 3, 1) {
	case 1:
		origin = valid[c.Intn(len(valid))]
	case 2:
		origin = invalid[c.Intn(len(invalid))]
	}
	// content: generated for one of the candidate families (or another one, to force fallback)
	gf := famOf(cands[c.Intn(len(cands))])
	if gf == famNone || c.Prob(1, 4) {
		gf = []family{famASCII, famUCS2, famGBK, famGSM7U, famLatin1}[c.Intn(5)]
	}
	target := pickTarget(c, gf)
	if target > 3000 && !c.Prob(1, 8) {
		target = 200 + target%800
	}
	if target == 0 {
		target = 1
	}
	text := genSMSText(c, gf, target, r)
	if text == "" {
		text = "a"
	}
	if mp := magicPrefix[gf]; len(mp) > 0 && c.Prob(1, 10) {
		// a text whose own encoding begins like a concatenation header, short enough for one part in many runs
		text = mp[c.Intn(len(mp))] + text
		if c.Bool() && len([]rune(text)) > 40 {
			text = string([]rune(text)[:8+c.Intn(30)])
		}
		r.Probe("text_begins_like_a_header")
	}
	if !isSMPP && c.Prob(1, 40) {
		// a text that is wider in GB18030 (four octets per character) than in UCS-2 (two), long enough that the GBK
		// candidate needs more than 255 parts while UCS-2 still fits: the fallback must not be skipped
		wide := []rune("\u0e01\u0e02\u0627\u05d0\u0915\u1200")
		n := 8416 + c.Intn(8000)
		rs := make([]rune, n)
		for i := range rs {
			rs[i] = wide[(i*7+n)%len(wide)]
		}
		text = string(rs)
		cands = []int{15}
		if c.Bool() {
			cands = append(cands, 0)
		}
		origin = -1
		r.Probe("wider_in_gb18030_than_ucs2")
	}
	ref := byte(c.Intn(256))
	K := 2 + c.Intn(7)
	r.Event("batch smpp=%v cands=%v origin=%d text=%d octets K=%d", isSMPP, cands, origin, len(text), K)

	// ---------------- expectation, independent of Build's sort
	set := map[int]bool{}
	for _, x := range cands {
		set[x] = true
	}
	if origin >= 0 && famOf(origin) != famNone {
		set[origin] = true
	}
	type cand struct {
		n, parts, prio int
	}
	var usable []cand
	for n := range set {
		f := famOf(n)
		if f == famNone {
			continue
		}
		if _, ok := refEncode(f, text); !ok {
			continue
		}
		var parts [][]byte
		var err error
		var actual int
		if isSMPP {
			var a datacoding.SMPPDataCoding
			parts, a, err = protocol.EncodeSMPPContentAndSplit(bg, text, datacoding.SMPPDataCoding(n), ref)
			actual = int(a)
		} else {
			var a datacoding.CMPPDataCoding
			parts, a, err = protocol.EncodeCMPPContentAndSplit(bg, text, datacoding.CMPPDataCoding(n), ref)
			actual = int(a)
		}
		np := len(parts)
		if err != nil || actual != n {
			// the single-coding entry point refuses or falls back although the reference repertoire check says the
			// coding can represent the text. Its word cannot decide what Build owes the caller (it is the same
			// library): the reference greedy splitter counts the parts; more than 255 of them make the coding unusable
			np = greedyParts(f, text)
			if np > 255 {
				continue
			}
			r.Probe("single_entry_disagrees_with_reference")
		}
		usable = append(usable, cand{n, np, mk(n).Priority()})
	}
	sort.Slice(usable, func(i, j int) bool {
		if usable[i].parts != usable[j].parts {
			return usable[i].parts < usable[j].parts
		}
		if usable[i].prio != usable[j].prio {
			return usable[i].prio < usable[j].prio
		}
		return usable[i].n < usable[j].n
	})

	// ---------------- K executions under simulator decisions
	s := core.NewSched(r)
	s.SwitchP = [2]int{1, 1 + c.Intn(3)}
	defer installSched(s)()
	defer installPermute(r)()
	results := make([]batchResult, K)
	panicked := false
	reuseBuilder := c.Prob(1, 3)
	shared := protocol.NewBatchDataCodingEncoder()
	if reuseBuilder {
		r.Probe("builder_reused")
	}
	s.Go("caller", func() {
		for k := 0; k < K; k++ {
			var dcs []datacoding.ProtocolDataCoding
			// the same request, candidate list in a tape-chosen order with tape-chosen duplicates
			order := append([]int(nil), cands...)
			for i := 0; i < len(order)-1; i++ {
				j := i + c.Intn(len(order)-i)
				order[i], order[j] = order[j], order[i]
			}
			if c.Prob(1, 3) {
				order = append(order, order[c.Intn(len(order))])
			}
			for _, n := range order {
				dcs = append(dcs, mk(n))
			}
			pr := map[bool]protocol.Protocol{true: protocol.SMPP, false: protocol.CMPP}[isSMPP]
			b := protocol.NewBatchDataCodingEncoder()
			if reuseBuilder {
				// one builder value serves all K requests; in between it may have built the same text under another
				// reference, another text under the same one, or nothing at all (then no setter is called again)
				b = shared
				switch c.Pick(3, 2, 2, 2) {
				case 1:
					r.Call("BatchDataCodingEncoder.Build", func() { _, _, _ = b.Content(text, ref+1).Build(ctx) })
				case 2:
					r.Call("BatchDataCodingEncoder.Build", func() { _, _, _ = b.Content("x"+text, ref).Build(ctx) })
				case 3:
					if k > 0 && !results[k-1].err {
						// the caller overwrites what the previous Build gave it (it owns those octets) and builds again
						for _, p := range results[k-1].live {
							for i := range p {
								p[i] = 0xC3
							}
						}
						results[k-1].scribbled = true
						r.Probe("builder_rebuilt_without_setters")
						goto build
					}
				}
			}
			{
				// the setters in a tape-chosen order: a request is the set of its settings
				setters := []func(){
					func() { b.Protocol(pr) },
					func() { b.Content(text, ref) },
					func() { b.DataCodings(dcs) },
				}
				if origin >= 0 {
					setters = append(setters, func() { b.OriginDataCoding(mk(origin)) })
				}
				for i := 0; i < len(setters)-1; i++ {
					j := i + c.Intn(len(setters)-i)
					if j != i {
						setters[i], setters[j] = setters[j], setters[i]
						r.Probe("setter_order_permuted")
					}
				}
				for _, f := range setters {
					f()
				}
			}
		build:
			var parts [][]byte
			var coding datacoding.ProtocolDataCoding
			var err error
			if p := r.Call("BatchDataCodingEncoder.Build", func() { parts, coding, err = b.Build(ctx) }); p != nil {
				r.Fail("C09", "panic", p.Frame, p.Kind, "Build panicked: %s", p.Value)
				panicked = true
				return
			}
			if err != nil && ctx.Err() != nil && errors.Is(err, ctx.Err()) {
				// an implementation may refuse to work for a caller that has gone away; it may not return a wrong answer
				ctxRefused = true
				r.Event("build %d refused: the context is done", k)
			}
			res := batchResult{err: err != nil}
			if err == nil {
				for _, p := range parts {
					res.parts = append(res.parts, append([]byte(nil), p...))
				}
				res.live = parts
				if coding != nil {
					res.coding = fmt.Sprintf("%d", int(reflectInt(coding)))
				}
			}
			results[k] = res
			r.Event("build %d -> %s", k, res)
			// another, unrelated request in between (a gateway serves many senders)
			if c.Prob(1, 2) {
				other := protocol.NewBatchDataCodingEncoder().Protocol(map[bool]protocol.Protocol{true: protocol.SMPP, false: protocol.CMPP}[isSMPP]).Content("hello "+text[:min(len(text), 7)], ref+1).DataCodings(dcs)
				r.Call("BatchDataCodingEncoder.Build", func() { _, _, _ = other.Build(ctx) })
			}
		}
	})
	s.Go("hammer", func() {
		// a second caller working on its own values through the same pools
		for i := 0; i < 2*K; i++ {
			w := packet.NewPacketWriter()
			w.WriteString("hammer hammer hammer")
			w.WriteUint32(uint32(i))
			_, _ = w.Bytes()
			w.Release()
			_ = cmpp.Utf8ToUcs2Pooled("锤子 hammer")
		}
	})
	if r.Cfg.Index%8 == 1 {
		// a collection at a point of the history that is a function of the run index
		s.GCAtStep = int(r.Cfg.Index / 8 * 37 % 300)
	}
	if expireAtStep >= 0 {
		s.StepHook = func(step int) {
			if step == expireAtStep {
				s.Advance(2 * time.Millisecond)
				r.Fault("deadline_passed_meanwhile")
			}
		}
	}
	if msg := s.Run(4000000, nil); msg != "" {
		r.Fail("C09", "liveness", "BatchDataCodingEncoder.Build", "stuck", "%s", msg)
		return
	}
	if panicked || ctxRefused {
		return
	}
	if s.Switches() > 0 {
		r.Probe("workers_interleaved")
	}

	// ---------------- oracles
	// results own their memory: what an earlier Build returned is unchanged after the later Builds
	for k := 0; k < K; k++ {
		if results[k].err {
			continue
		}
		if results[k].scribbled {
			continue // the harness overwrote it itself
		}
		same := len(results[k].live) == len(results[k].parts)
		for i := 0; same && i < len(results[k].parts); i++ {
			same = string(results[k].live[i]) == string(results[k].parts[i])
		}
		if !same {
			r.Fail("C09", "result-changed-later", protoName(isSMPP), "retained", "the parts returned by Build %d of %d changed after later Build calls", k+1, K)
			return
		}
	}
	for k := 1; k < K; k++ {
		if !sameResult(results[0], results[k]) {
			r.Fail("C09", "nondeterministic", protoName(isSMPP), "result", "the same request gave %s and then %s under another candidate order / schedule", results[0], results[k])
			return
		}
	}
	got := results[0]
	site := protoName(isSMPP)
	if len(usable) == 0 {
		// nothing can represent: UCS-2 fallback unless UCS-2 itself was a candidate and failed
		ucs2Tried := set[8]
		var fp [][]byte
		var ferr error
		if isSMPP {
			fp, _, ferr = protocol.EncodeSMPPContentAndSplit(bg, text, datacoding.SMPP_CODING_UCS2, ref)
		} else {
			fp, _, ferr = protocol.EncodeCMPPContentAndSplit(bg, text, datacoding.CMPP_CODING_UCS2, ref)
		}
		r.Probe("no_candidate_usable")
		if ferr != nil || ucs2Tried {
			if !got.err && ferr != nil {
				r.Fail("C09", "fallback", site, "error-expected", "nothing can encode the content (UCS-2: %v) but Build returned %s", ferr, got)
			}
			return
		}
		if got.err {
			r.Fail("C09", "fallback", site, "ucs2-expected", "no candidate of %v can represent the content; UCS-2 fallback expected, Build returned an error", cands)
			return
		}
		if got.coding != "8" || len(got.parts) != len(fp) {
			r.Fail("C09", "fallback", site, "ucs2-expected", "no candidate can represent the content; expected UCS-2 in %d parts, got %s", len(fp), got)
		}
		checkPartsDecode(r, site, famUCS2, got.parts, text)
		return
	}
	if got.err {
		r.Fail("C09", "error", site, "usable-candidate", "candidates %v: coding %d can represent the content in %d parts, Build returned an error", cands, usable[0].n, usable[0].parts)
		return
	}
	best := usable[0]
	if len(got.parts) != best.parts {
		r.Fail("C09", "not-minimal", site, "parts", "Build returned %s; candidate %d needs only %d parts", got, best.n, best.parts)
		return
	}
	if got.coding != fmt.Sprint(best.n) {
		r.Fail("C09", "tie-break", site, "priority", "Build returned %s; among the candidates with %d parts, coding %d has the highest priority", got, best.parts, best.n)
		return
	}
	checkPartsDecode(r, site, famOf(best.n), got.parts, text)
}

func protoName(isSMPP bool) string {
	if isSMPP {
		return "SMPP"
	}
	return "CMPP"
}

func reflectInt(c datacoding.ProtocolDataCoding) int {
	switch v := c.(type) {
	case datacoding.SMPPDataCoding:
		return int(v)
	case datacoding.CMPPDataCoding:
		return int(v)
	}
	return -1
}

// checkPartsDecode: the returned parts decode to the content under the returned coding.
func checkPartsDecode(r *core.Run, site string, f family, parts [][]byte, text string) {
	var payloads [][]byte
	if len(parts) == 1 {
		payloads = parts
	} else {
		for _, p := range parts {
			if len(p) < 6 {
				r.Fail("C09", "parts", site, "header", "a part shorter than its header")
				return
			}
			payloads = append(payloads, p[6:])
		}
	}
	var got string
	ok := true
	if f == famGSM7P {
		want, _ := refGSMEncode(text)
		got, ok = decodePackedParts(payloads, want)
	} else {
		var all []byte
		for _, p := range payloads {
			all = append(all, p...)
		}
		got, ok = refDecode(f, all)
	}
	if !ok || got != text {
		r.Fail("C09", "parts", site+"/"+famName[f], "content", "the returned parts do not decode to the content under the returned coding")
	}
}
