package scen

import (
	"bytes"
	"unicode/utf16"
	"unicode/utf8"

	"golang.org/x/text/encoding/simplifiedchinese"
)

// Reference text codecs of the handset. They are written from the standards
// (3GPP TS 23.038 default alphabet + extension table, UTF-16BE, Windows-1252)
// and share no code with the library; GB18030 uses upstream x/text, which the
// properties themselves trust.

// GSM 7-bit default alphabet, TS 23.038 section 6.2.1 (index = septet value; 0x1B is the escape).
var gsmBasic = [128]rune{
	'@', '£', '$', '¥', 'è', 'é', 'ù', 'ì', 'ò', 'Ç', '\n', 'Ø', 'ø', '\r', 'Å', 'å',
	'Δ', '_', 'Φ', 'Γ', 'Λ', 'Ω', 'Π', 'Ψ', 'Σ', 'Θ', 'Ξ', -1, 'Æ', 'æ', 'ß', 'É',
	' ', '!', '"', '#', '¤', '%', '&', '\'', '(', ')', '*', '+', ',', '-', '.', '/',
	'0', '1', '2', '3', '4', '5', '6', '7', '8', '9', ':', ';', '<', '=', '>', '?',
	'¡', 'A', 'B', 'C', 'D', 'E', 'F', 'G', 'H', 'I', 'J', 'K', 'L', 'M', 'N', 'O',
	'P', 'Q', 'R', 'S', 'T', 'U', 'V', 'W', 'X', 'Y', 'Z', 'Ä', 'Ö', 'Ñ', 'Ü', '§',
	'¿', 'a', 'b', 'c', 'd', 'e', 'f', 'g', 'h', 'i', 'j', 'k', 'l', 'm', 'n', 'o',
	'p', 'q', 'r', 's', 't', 'u', 'v', 'w', 'x', 'y', 'z', 'ä', 'ö', 'ñ', 'ü', 'à',
}

// extension table, TS 23.038 section 6.2.1.1 (second septet after 0x1B)
var gsmExt = map[byte]rune{0x0A: '\f', 0x14: '^', 0x28: '{', 0x29: '}', 0x2F: '\\', 0x3C: '[', 0x3D: '~', 0x3E: ']', 0x40: '|', 0x65: '€'}

var gsmBasicRev = map[rune]byte{}
var gsmExtRev = map[rune]byte{}

func init() {
	for i, r := range gsmBasic {
		if r >= 0 {
			gsmBasicRev[r] = byte(i)
		}
	}
	for b, r := range gsmExt {
		gsmExtRev[r] = b
	}
}

// refGSMEncode returns the septets of text, or ok=false if a character is
// outside the alphabet.
func refGSMEncode(text string) (septets []byte, ok bool) {
	for _, r := range text {
		if b, y := gsmBasicRev[r]; y {
			septets = append(septets, b)
		} else if b, y := gsmExtRev[r]; y {
			septets = append(septets, 0x1B, b)
		} else {
			return nil, false
		}
	}
	return septets, true
}

func refGSMDecode(septets []byte) (string, bool) {
	var out []rune
	for i := 0; i < len(septets); i++ {
		b := septets[i]
		if b > 0x7f {
			return "", false
		}
		if b == 0x1B {
			i++
			if i >= len(septets) {
				return "", false
			}
			r, ok := gsmExt[septets[i]]
			if !ok {
				return "", false
			}
			out = append(out, r)
			continue
		}
		out = append(out, gsmBasic[b])
	}
	return string(out), true
}

// refUnpack extracts n septets from packed octets: septet i occupies bits
// 7i..7i+6 of the little-endian bit stream (TS 23.038 section 6.1.2.1.1).
func refUnpack(octets []byte, n int) []byte {
	out := make([]byte, n)
	for i := 0; i < n; i++ {
		bit := 7 * i
		var v uint16
		if bit/8 < len(octets) {
			v = uint16(octets[bit/8])
		}
		if bit/8+1 < len(octets) {
			v |= uint16(octets[bit/8+1]) << 8
		}
		out[i] = byte(v>>(uint(bit)%8)) & 0x7f
	}
	return out
}

// refPack packs septets: septet i occupies bits 7i..7i+6 of the little-endian
// bit stream; spare bits are zero (no CR fill: the decoders must cope with both).
func refPack(septets []byte) []byte {
	out := make([]byte, (7*len(septets)+7)/8)
	for i, v := range septets {
		bit := 7 * i
		w := uint16(v&0x7f) << (uint(bit) % 8)
		out[bit/8] |= byte(w)
		if bit/8+1 < len(out) {
			out[bit/8+1] |= byte(w >> 8)
		}
	}
	return out
}

// septetCounts: the numbers of septets that pack into exactly n octets
// (two candidates when the last octet may hold only padding).
func septetCounts(n int) []int {
	if n == 0 {
		return []int{0}
	}
	var out []int
	k := n * 8 / 7
	for _, c := range []int{k, k - 1} {
		if c >= 0 && (7*c+7)/8 == n {
			out = append(out, c)
		}
	}
	return out
}

func refUCS2Encode(text string) []byte {
	u := utf16.Encode([]rune(text))
	out := make([]byte, 0, 2*len(u))
	for _, c := range u {
		out = append(out, byte(c>>8), byte(c))
	}
	return out
}

// refUCS2Decode is strict: odd length, lone or swapped surrogates fail.
func refUCS2Decode(b []byte) (string, bool) {
	if len(b)%2 != 0 {
		return "", false
	}
	u := make([]uint16, len(b)/2)
	for i := range u {
		u[i] = uint16(b[2*i])<<8 | uint16(b[2*i+1])
	}
	var out []rune
	for i := 0; i < len(u); i++ {
		c := u[i]
		switch {
		case c >= 0xD800 && c < 0xDC00:
			if i+1 >= len(u) || u[i+1] < 0xDC00 || u[i+1] > 0xDFFF {
				return "", false
			}
			out = append(out, utf16.DecodeRune(rune(c), rune(u[i+1])))
			i++
		case c >= 0xDC00 && c <= 0xDFFF:
			return "", false
		default:
			out = append(out, rune(c))
		}
	}
	return string(out), true
}

// Windows-1252 (the library's "Latin1"): 0x80..0x9F carry the 27 defined
// extras, 0xA0..0xFF equal the code point.
var cp1252 = map[rune]byte{'€': 0x80, '‚': 0x82, 'ƒ': 0x83, '„': 0x84, '…': 0x85, '†': 0x86, '‡': 0x87, 'ˆ': 0x88, '‰': 0x89, 'Š': 0x8A, '‹': 0x8B, 'Œ': 0x8C, 'Ž': 0x8E,
	'‘': 0x91, '’': 0x92, '“': 0x93, '”': 0x94, '•': 0x95, '–': 0x96, '—': 0x97, '˜': 0x98, '™': 0x99, 'š': 0x9A, '›': 0x9B, 'œ': 0x9C, 'ž': 0x9E, 'Ÿ': 0x9F}
var cp1252Rev = map[byte]rune{}

func init() {
	for r, b := range cp1252 {
		cp1252Rev[b] = r
	}
}

func refLatin1Encode(text string) ([]byte, bool) {
	var out []byte
	for _, r := range text {
		switch {
		case r < 0x80 || (r >= 0xA0 && r <= 0xFF):
			out = append(out, byte(r))
		default:
			b, ok := cp1252[r]
			if !ok {
				return nil, false
			}
			out = append(out, b)
		}
	}
	return out, true
}

func refLatin1Decode(b []byte) (string, bool) {
	var out []rune
	for _, c := range b {
		switch {
		case c < 0x80 || c >= 0xA0:
			out = append(out, rune(c))
		default:
			r, ok := cp1252Rev[c]
			if !ok {
				return "", false
			}
			out = append(out, r)
		}
	}
	return string(out), true
}

func refASCIIOK(text string) bool {
	for i := 0; i < len(text); i++ {
		if text[i] >= 0x80 {
			return false
		}
	}
	return true
}

func refGBEncode(text string) ([]byte, bool) {
	b, err := simplifiedchinese.GB18030.NewEncoder().Bytes([]byte(text))
	return b, err == nil
}

// refGBDecode is strict: a replacement character that was not in the input means failure.
func refGBDecode(b []byte) (string, bool) {
	out, err := simplifiedchinese.GB18030.NewDecoder().Bytes(b)
	if err != nil {
		return "", false
	}
	// the decoder writes U+FFFD for octets that are no character; a text may also contain a genuine U+FFFD
	// (84 31 A4 37). What tells them apart: only a faithful decoding encodes back to the very octets.
	if bytes.ContainsRune(out, utf8.RuneError) {
		back, err := simplifiedchinese.GB18030.NewEncoder().Bytes(out)
		if err != nil || !bytes.Equal(back, b) {
			return "", false
		}
	}
	return string(out), true
}
