package scen

import (
	"bytes"
	"encoding/binary"
	"errors"
	"fmt"
	"reflect"
	"sort"
	"strconv"
	"time"

	protocol "github.com/hujm2023/go-sms-protocol"
	"github.com/hujm2023/go-sms-protocol/cmpp/cmpp20"
	"github.com/hujm2023/go-sms-protocol/sgip"
	"github.com/hujm2023/go-sms-protocol/sgip/sgip12"
	"github.com/hujm2023/go-sms-protocol/smgp/smgp30"
	"github.com/hujm2023/go-sms-protocol/smpp/smpp34"

	"verif/sim/core"
	"verif/sim/spec"
)

// session — C10. A client pipelines request PDUs of every request type of a
// protocol without waiting; the server frames, dispatches, calls
// GenEmptyResponse, encodes and answers after a tape-chosen processing delay
// during which the (bubble) clock advances, so responses overtake one another.
// The client frames, dispatches and pairs each response with its outstanding
// request by GetSequenceID. History oracle: exactly-once pairing, response
// type, sequence words and command id in the encoded header.

// per dispatcher: ids 0..0x11f, 0x80000000..0x8000011f, and dispatchVariants derived ids for up to 16 defined ids
const dispatchVariants = 10
const dispatchIDs = 0x120*2 + 16*dispatchVariants

func init() {
	Register(&Scenario{
		Pools:  true,
		Name:   "session",
		Props:  []string{"C10"},
		Bubble: true,
		Plan: func(prop, tier string) []Batch {
			n := uint64(20000)
			if tier == "thorough" {
				n = 3000000
			}
			return []Batch{{Mode: "dispatch-ids", Count: 5 * dispatchIDs, Exhaustive: true}, {Mode: "seeded", Count: n}}
		},
		Run:  runSession,
		Real: []string{"per-protocol dispatchers", "GenEmptyResponse / GetCommand / SetSequenceID / GetSequenceID / IEncode / IDecode of all 57 types", "constructors cmpp20.NewConnect, smgp30.NewLogin, sgip12.NewBind and the *Packet / *Bytes helpers (they read the simulated clock)", "codec framers"},
		Stub: []string{"client window (outstanding requests, matching by sequence id)", "server processing delays", "links", "bubble clock", "request/response table from the specifications"},
		Rule: "1..64 pipelined requests per run (sequence numbers incl. 0, 2^31, 2^32-1; SGIP all three words; all three SMPP bind flavours), responses released in the order of tape-chosen processing delays while the simulated clock advances; mode dispatch-ids enumerates command ids 0..0x11f and 0x80000000..0x8000011f for every dispatcher. Non-trivial = a response overtook another, the clock advanced between request and response, or a link cut occurred; distinct = distinct event-log hash",
	})
}

type outstanding struct {
	m       *spec.Msg
	pd      *spec.PDU
	reqCmd  uint32
	answers int
}

func runSession(r *core.Run) {
	if r.Cfg.Mode == "dispatch-ids" {
		runDispatchIDs(r)
		return
	}
	c := r.C
	sp := Spec()
	proto := sp.Protos[c.Intn(len(sp.Protos))]
	var reqTypes []*spec.PDU
	for _, pd := range proto.PDUs {
		if pd.Resp != "" {
			reqTypes = append(reqTypes, pd)
		}
	}
	// the simulated clock starts somewhere in the year
	start := time.Duration(c.Intn(365*24)) * time.Hour
	time.Sleep(start)
	r.SimTime += start
	n := 1 + c.Size(63, 1, 2, 8)
	edges := []uint32{0, 1, 0x7fffffff, 0x80000000, 0xffffffff, 0xfffffffe}
	usedSeq := map[uint32]bool{}
	var window []*outstanding
	var stream []byte
	var ends []int
	for i := 0; i < n; i++ {
		pd := reqTypes[c.Intn(len(reqTypes))]
		m := spec.Gen(c, pd, spec.GenOpt{MaxDests: 2, BinNoNul: true, MaxBody32: 100, BigTLV: c.Prob(1, 6)})
		var seq uint32
		if c.Prob(1, 3) {
			seq = edges[c.Intn(len(edges))]
		} else {
			seq = uint32(c.Uint64())
		}
		for usedSeq[seq] {
			seq += 7
		}
		usedSeq[seq] = true
		if proto.Header == "sgip20" {
			m.Seq[2] = seq
		} else {
			m.Seq[0] = seq
		}
		var pdu protocol.PDU
		built := "literal"
		// constructors read the simulated clock
		if c.Prob(1, 4) {
			switch pd.Site() {
			case "cmpp20.PduConnect":
				pdu, built = cmpp20.NewConnect("acct", "secret", seq), "constructor"
			case "smgp30.Login":
				pdu, built = smgp30.NewLogin("acct", "secret", seq), "constructor"
			case "sgip12.Bind":
				at := time.Now() // the simulated clock; nothing moves it during the call
				pdu, built = sgip12.NewBind("acct", "secret", m.Seq[0], seq), "constructor"
				want := uint32(int(at.Month())*100000000 + at.Day()*1000000 + at.Hour()*10000 + at.Minute()*100 + at.Second())
				if b, ok := pdu.(*sgip12.Bind); ok && b.Header.Sequence[1] != want {
					r.Fail("C10", "resp-seq", "sgip12.NewBind", "word=1/clock", "the constructor stamped %010d as the second sequence word at %s (mmddhhmmss would be %010d)", b.Header.Sequence[1], at.Format("01-02 15:04:05"), want)
				}
			}
		}
		if pdu == nil {
			pdu = ToGo(m)
		}
		site := pd.Site()
		// SetSequenceID is visible through the getter and at the header's sequence offset
		if c.Prob(1, 3) {
			r.Call(site+".SetSequenceID", func() { pdu.SetSequenceID(seq ^ 0x5a5a5a5a) })
			if pdu.GetSequenceID() != seq^0x5a5a5a5a {
				r.Fail("C10", "set-seq", site, "getter", "SetSequenceID(%d) then GetSequenceID()=%d", seq^0x5a5a5a5a, pdu.GetSequenceID())
			}
			r.Call(site+".SetSequenceID", func() { pdu.SetSequenceID(seq) })
		}
		if pdu.GetSequenceID() != seq {
			r.Fail("C10", "set-seq", site, "getter", "GetSequenceID()=%d, sequence number is %d", pdu.GetSequenceID(), seq)
		}
		var b []byte
		var err error
		if p := r.Call(site+".IEncode", func() { b, err = pdu.IEncode() }); p != nil || err != nil {
			r.Event("request %s does not encode (%v)", site, err)
			continue
		}
		_, cmd, hseq, ok := headerBits(proto, b)
		if !ok {
			continue
		}
		wantSeqWord := hseq[0]
		if proto.Header == "sgip20" {
			wantSeqWord = hseq[2]
		}
		if wantSeqWord != seq {
			r.Fail("C10", "set-seq", site, "header-offset", "sequence number %d is not at the header's sequence offset (found %d)", seq, wantSeqWord)
		}
		if proto.Header == "sgip20" && built == "literal" && hseq != m.Seq {
			r.Fail("C10", "set-seq", site, "sequence-words", "the three sequence words set were %v, the encoded header carries %v", m.Seq, hseq)
		}
		if got := pdu.GetCommand().ToUint32(); got != cmd {
			r.Fail("C10", "command", site, built, "GetCommand()=%#x but the encoded header carries command id %#x", got, cmd)
		}
		mm := *m
		mm.Seq = hseq
		window = append(window, &outstanding{m: &mm, pd: pd, reqCmd: cmd})
		stream = append(stream, b...)
		ends = append(ends, len(stream))
		r.Event("client sends %s cmd=%#x seq=%v", site, cmd, hseq)
	}
	helperPackets(r, proto)
	literalRequests(r, proto, reqTypes)
	if c.Prob(1, 30) {
		dispatchRetention(r, proto)
	}
	dispatchAnyType(r, proto)
	if r.Cfg.Index%40 == 7 {
		unsupportedStorm(r, proto)
	}
	if len(window) == 0 {
		return
	}
	// ---- server: frame, dispatch, schedule the response
	frames, how := recvFrames(r, proto.Name, newByteLink(r, stream, ends), len(ends))
	if how != "" || len(frames) != len(window) {
		r.Event("link trouble: %s", how)
		return
	}
	type pending struct {
		at    time.Duration
		idx   int
		req   protocol.PDU
		order int
	}
	var pend []pending
	for i, f := range frames {
		var req protocol.PDU
		var err error
		label := "Decode" + proto.Name
		if p := r.Call(label, func() { req, err = dispatcher[proto.Name](f) }); p != nil {
			r.Fail("C10", "panic", p.Frame, p.Kind, "dispatcher: %s", p.Value)
			return
		}
		o := window[i]
		site := o.pd.Site()
		if err != nil || req == nil {
			if errors.Is(err, protocol.ErrUnsupportedPacket) {
				r.Fail("C10", "dispatch", site, "unsupported", "the dispatcher does not know command id %#x although %s encodes it", o.reqCmd, site)
			} else {
				// the frame is what the library's own encoder produced for a well-formed value
				r.Fail("C10", "dispatch", site, "refused", "the dispatcher refuses a %d-octet %s that the package itself encoded: %v", len(f), site, err)
			}
			continue
		}
		if typeSite(req) != site {
			r.Fail("C10", "dispatch", site, "wrong-type", "command id %#x was decoded as %s", o.reqCmd, typeSite(req))
			continue
		}
		// a decoded PDU reports the command id its header carries
		if got := req.GetCommand().ToUint32(); got != o.reqCmd {
			r.Fail("C10", "command", site, "decoded", "decoded from command id %#x, GetCommand() reports %#x", o.reqCmd, got)
		}
		delay := time.Duration(0)
		switch c.Pick(3, 3, 2, 1) {
		case 1:
			delay = time.Duration(1+c.Intn(5000)) * time.Millisecond
		case 2:
			delay = time.Duration(1+c.Intn(120)) * time.Second
		case 3:
			delay = time.Duration(1+c.Intn(48)) * time.Hour
		}
		pend = append(pend, pending{at: delay, idx: i, req: req, order: i})
	}
	sort.SliceStable(pend, func(i, j int) bool { return pend[i].at < pend[j].at })
	// ---- responses are generated when the processing delay has elapsed
	var rstream []byte
	var rends []int
	type keptResponse struct {
		pdu  protocol.PDU
		site string
		img  []byte
		seq  uint32
	}
	var keptResp []keptResponse
	var now time.Duration
	for k, p := range pend {
		if p.at > now {
			time.Sleep(p.at - now)
			r.SimTime += p.at - now
			now = p.at
			r.Fault("clock_advance")
		}
		if k > 0 && p.order < pend[k-1].order {
			r.Fault("response_overtook")
		}
		o := window[p.idx]
		site := o.pd.Site()
		var resp protocol.PDU
		if pp := r.Call(site+".GenEmptyResponse", func() { resp = p.req.GenEmptyResponse() }); pp != nil {
			r.Fail("C10", "panic", pp.Frame, pp.Kind, "GenEmptyResponse: %s", pp.Value)
			continue
		}
		if resp == nil {
			r.Fail("C10", "resp-type", site, "nil", "a request generated no response")
			continue
		}
		want := o.pd.Proto.Name + "." + o.pd.Resp
		if typeSite(resp) != want {
			r.Fail("C10", "resp-type", site, "type", "GenEmptyResponse returned %s, the protocol's response to %s is %s", typeSite(resp), site, want)
			continue
		}
		if resp.GetSequenceID() != p.req.GetSequenceID() {
			r.Fail("C10", "resp-seq", site, "getter", "response GetSequenceID()=%d, request %d", resp.GetSequenceID(), p.req.GetSequenceID())
		}
		var again protocol.PDU
		r.Call(want+".GenEmptyResponse", func() { again = resp.GenEmptyResponse() })
		if again != nil {
			r.Fail("C10", "resp-type", want, "response-of-response", "a response generated another response (%s)", typeSite(again))
		}
		var b []byte
		var err error
		if pp := r.Call(want+".IEncode", func() { b, err = resp.IEncode() }); pp != nil || err != nil {
			r.Fail("C10", "resp-encode", want, "empty-response", "the generated response does not encode: %v", err)
			continue
		}
		_, cmd, hseq, ok := headerBits(proto, b)
		if !ok {
			r.Fail("C10", "resp-encode", want, "short", "encoded response has %d octets", len(b))
			continue
		}
		if cmd != o.reqCmd|0x80000000 {
			r.Fail("C10", "resp-command", site, fmt.Sprintf("req=%#x", o.reqCmd), "request command id %#x, encoded response carries %#x (expected %#x)", o.reqCmd, cmd, o.reqCmd|0x80000000)
		}
		if got := resp.GetCommand().ToUint32(); got != cmd {
			r.Fail("C10", "command", want, "generated", "GetCommand()=%#x but the encoded response header carries %#x", got, cmd)
		}
		for w := 0; w < 3; w++ {
			if hseq[w] != o.m.Seq[w] {
				r.Fail("C10", "resp-seq", site, fmt.Sprintf("word=%d", w), "request sequence %v, encoded response carries %v", o.m.Seq, hseq)
				break
			}
		}
		rstream = append(rstream, b...)
		rends = append(rends, len(rstream))
		r.Event("server answers %s cmd=%#x seq=%v after %v", want, cmd, hseq, p.at)
		keptResp = append(keptResp, keptResponse{resp, want, append([]byte(nil), b...), resp.GetSequenceID()})
		// a second response generator some types offer must agree with GenEmptyResponse
		if gm := reflect.ValueOf(p.req).MethodByName("GenerateResponseHeader"); gm.IsValid() && gm.Type().NumIn() == 0 && gm.Type().NumOut() == 1 {
			r.Probe("second_response_generator")
			var alt protocol.PDU
			r.Call(site+".GenerateResponseHeader", func() {
				if v, ok := gm.Call(nil)[0].Interface().(protocol.PDU); ok && !gm.Call(nil)[0].IsNil() {
					alt = v
				}
			})
			if alt == nil || typeSite(alt) != want {
				r.Fail("C10", "resp-type", site, "GenerateResponseHeader", "GenerateResponseHeader returned %v, the protocol's response is %s", alt, want)
			} else {
				if alt.GetSequenceID() != p.req.GetSequenceID() {
					r.Fail("C10", "resp-seq", site, "GenerateResponseHeader", "response sequence %d, request %d", alt.GetSequenceID(), p.req.GetSequenceID())
				}
				var ab []byte
				var aerr error
				if pp := r.Call(want+".IEncode", func() { ab, aerr = alt.IEncode() }); pp == nil && aerr == nil {
					if _, acmd, ahs, aok := headerBits(proto, ab); aok && (acmd != cmd || ahs != hseq) {
						r.Fail("C10", "resp-command", site, "GenerateResponseHeader", "encoded header carries command %#x seq %v, GenEmptyResponse gave %#x %v", acmd, ahs, cmd, hseq)
					}
				}
			}
		}
		if c.Prob(1, 3) {
			checkSetSeq(r, proto, p.req, "decoded")
		}
		// a generated response is a PDU obtained from the library too: setting its sequence number is visible
		// through the getter and at the header's sequence offset (on a copy; the one sent stays as it is)
		if c.Prob(1, 2) {
			var cp protocol.PDU
			r.Call(site+".GenEmptyResponse", func() { cp = p.req.GenEmptyResponse() })
			if cp != nil {
				ns := uint32(c.Uint64())
				if c.Prob(1, 3) {
					ns = edges[c.Intn(len(edges))]
				}
				r.Probe("set_seq_on_generated_response")
				r.Call(want+".SetSequenceID", func() { cp.SetSequenceID(ns) })
				if cp.GetSequenceID() != ns {
					r.Fail("C10", "set-seq", want, "getter", "SetSequenceID(%d) on a generated response, then GetSequenceID()=%d", ns, cp.GetSequenceID())
				}
				var b2 []byte
				var err2 error
				if pp := r.Call(want+".IEncode", func() { b2, err2 = cp.IEncode() }); pp == nil && err2 == nil {
					if _, cmd2, hs2, ok2 := headerBits(proto, b2); ok2 {
						w := 0
						if proto.Header == "sgip20" {
							w = 2
						}
						if hs2[w] != ns {
							r.Fail("C10", "set-seq", want, "header-offset", "sequence number %d set on a generated response is not at the header's sequence offset (found %d)", ns, hs2[w])
						}
						if cmd2 != cmd {
							r.Fail("C10", "resp-command", want, "after-set-seq", "command id changed from %#x to %#x after SetSequenceID", cmd, cmd2)
						}
					}
				}
			}
		}
	}
	// responses generated earlier are values of their own: generating later ones must not have changed them
	for i, k := range keptResp {
		if k.pdu.GetSequenceID() != k.seq {
			r.Fail("C10", "resp-seq", k.site, "changed-later", "response %d of %d reported sequence %d when generated and %d after later responses were generated", i+1, len(keptResp), k.seq, k.pdu.GetSequenceID())
			break
		}
		var b2 []byte
		var err2 error
		if pp := r.Call(k.site+".IEncode", func() { b2, err2 = k.pdu.IEncode() }); pp == nil && err2 == nil && !bytes.Equal(b2, k.img) {
			r.Fail("C10", "resp-encode", k.site, "changed-later", "response %d of %d encodes differently after later responses were generated: %s, was %s", i+1, len(keptResp), hexN(b2, 24), hexN(k.img, 24))
			break
		}
	}
	if len(keptResp) > 1 {
		r.Probe("responses_retained")
	}
	// ---- client: frame, dispatch, pair by sequence id
	if len(rends) == 0 {
		return
	}
	rframes, how := recvFrames(r, proto.Name, newByteLink(r, rstream, rends), len(rends))
	if how != "" {
		r.Event("response link trouble: %s", how)
		return
	}
	bySeq := map[uint32]*outstanding{}
	for _, o := range window {
		k := o.m.Seq[0]
		if proto.Header == "sgip20" {
			k = o.m.Seq[2]
		}
		bySeq[k] = o
	}
	for _, f := range rframes {
		var resp protocol.PDU
		var err error
		if p := r.Call("Decode"+proto.Name, func() { resp, err = dispatcher[proto.Name](f) }); p != nil {
			r.Fail("C10", "panic", p.Frame, p.Kind, "dispatcher on a response: %s", p.Value)
			return
		}
		_, cmd, _, _ := headerBits(proto, f)
		if err != nil || resp == nil {
			if errors.Is(err, protocol.ErrUnsupportedPacket) {
				pd := proto.ByID(cmd)
				name := fmt.Sprintf("%#x", cmd)
				if pd != nil {
					name = pd.Site()
				}
				r.Fail("C10", "dispatch", name, "unsupported", "the client's dispatcher does not know the response command id %#x that GenEmptyResponse produced", cmd)
			} else {
				r.Fail("C10", "dispatch", fmt.Sprintf("%#x", cmd), "refused", "the client's dispatcher refuses a generated and encoded response (command id %#x, %d octets): %v", cmd, len(f), err)
			}
			continue
		}
		o := bySeq[resp.GetSequenceID()]
		if o == nil {
			r.Fail("C10", "pairing", typeSite(resp), "orphan", "a response with sequence id %d matches no outstanding request", resp.GetSequenceID())
			continue
		}
		o.answers++
		if got := resp.GetCommand().ToUint32(); got != cmd {
			r.Fail("C10", "command", typeSite(resp), "decoded", "decoded from command id %#x, GetCommand() reports %#x", cmd, got)
		}
		if c.Prob(1, 2) {
			checkSetSeq(r, proto, resp, "decoded")
		}
	}
	for _, o := range window {
		if o.answers != 1 {
			// only meaningful when the server could answer at all
			answered := false
			for _, p := range pend {
				if window[p.idx] == o {
					answered = true
				}
			}
			if answered && len(rframes) == len(rends) {
				r.Fail("C10", "pairing", o.pd.Site(), fmt.Sprintf("answers=%d", min(o.answers, 2)), "request seq=%v received %d responses", o.m.Seq, o.answers)
			}
		}
	}
	_ = bytes.Equal
}

// dispatchAnyType: every PDU the package can encode - responses with arbitrary field values included, not only the
// requests of the window and the empty responses generated for them - is mapped back to its type by the dispatcher.
func dispatchAnyType(r *core.Run, proto *spec.Proto) {
	c := r.C
	for k, n := 0, 1+c.Intn(4); k < n; k++ {
		pd := proto.PDUs[c.Intn(len(proto.PDUs))]
		m := spec.Gen(c, pd, spec.GenOpt{MaxDests: 2, BinNoNul: true, MaxBody32: 60, BigTLV: c.Prob(1, 10)})
		site := pd.Site()
		pdu := ToGo(m)
		var b []byte
		var err error
		if p := r.Call(site+".IEncode", func() { b, err = pdu.IEncode() }); p != nil || err != nil {
			continue
		}
		_, cmd, _, ok := headerBits(proto, b)
		if !ok {
			continue
		}
		var back protocol.PDU
		if p := r.Call("Decode"+proto.Name, func() { back, err = dispatcher[proto.Name](b) }); p != nil {
			r.Fail("C10", "panic", p.Frame, p.Kind, "dispatcher on an encoded %s: %s", site, p.Value)
			return
		}
		if err != nil || back == nil {
			if errors.Is(err, protocol.ErrUnsupportedPacket) {
				r.Fail("C10", "dispatch", site, "unsupported", "the dispatcher does not know command id %#x although %s encodes it", cmd, site)
			} else {
				r.Fail("C10", "dispatch", site, "refused", "the dispatcher refuses a %d-octet %s that the package itself encoded: %v", len(b), site, err)
			}
			continue
		}
		if typeSite(back) != site {
			r.Fail("C10", "dispatch", site, "wrong-type", "command id %#x was decoded as %s", cmd, typeSite(back))
			continue
		}
		if got := back.GetCommand().ToUint32(); got != cmd {
			r.Fail("C10", "command", site, "decoded", "decoded from command id %#x, GetCommand() reports %#x", cmd, got)
		}
		// types outside the request/response table (generic_nack, SGIP report …) have setters too
		if c.Prob(1, 2) {
			checkSetSeq(r, proto, back, "dispatched")
			var b2 []byte
			if p := r.Call(site+".IEncode", func() { b2, err = back.IEncode() }); p == nil && err == nil {
				b = b2
			}
		}
		headerAccessors(r, back)
		// the same image cut short or damaged in its tail: a PDU or an error, never neither
		hl := proto.HeaderLen()
		for k2 := 0; k2 < 3 && len(b) > hl+1; k2++ {
			d := append([]byte(nil), b...)
			switch c.Intn(3) {
			case 0:
				d = d[:hl+c.Intn(len(d)-hl)]
			case 1:
				d = d[:len(d)-1-c.Intn(min(12, len(d)-hl-1))]
			default:
				d[len(d)-1-c.Intn(min(8, len(d)-hl))] ^= 0xff
			}
			binary.BigEndian.PutUint32(d, uint32(len(d)))
			var dp protocol.PDU
			var derr error
			if p := r.Call("Decode"+proto.Name, func() { dp, derr = dispatcher[proto.Name](d) }); p != nil {
				continue // C03's business
			}
			if dp == nil && derr == nil {
				r.Fail("C10", "dispatch", "Decode"+proto.Name, "nil-nil", "a damaged %s image (%d of %d octets): neither a PDU nor an error", site, len(d), len(b))
				return
			}
		}
	}
}

// dispatchRetention: a receiver keeps PDUs the dispatcher gave it (a keep-alive it has not answered yet, a submit
// queued for a worker) while hundreds of further frames of the same command are dispatched. Every kept PDU must
// still report and encode what it was decoded from.
func dispatchRetention(r *core.Run, proto *spec.Proto) {
	c := r.C
	pd := proto.PDUs[c.Intn(len(proto.PDUs))]
	if c.Bool() {
		// keep-alives and other header-only types are the ones an implementation is tempted to recycle
		for _, cand := range proto.PDUs {
			if len(cand.Fields) == 0 && c.Prob(1, 2) {
				pd = cand
			}
		}
	}
	n := 257 + c.Intn(300)
	if c.Prob(1, 4) {
		n = 1000 + c.Intn(300)
	}
	type kept struct {
		pdu protocol.PDU
		seq uint32
		img []byte
	}
	var ks []kept
	site := pd.Site()
	for i := 0; i < n; i++ {
		m := spec.Gen(c, pd, spec.GenOpt{MaxDests: 1, BinNoNul: true, NoTail: true, MaxBody32: 8, FixedSeq: true})
		seq := uint32(i)*2654435761 + 17
		for w := range m.Seq {
			m.Seq[w] = seq + uint32(w)
		}
		img, _ := spec.Build(m)
		var pdu protocol.PDU
		var err error
		if p := r.Call("Decode"+proto.Name, func() { pdu, err = dispatcher[proto.Name](img) }); p != nil {
			r.Fail("C10", "panic", p.Frame, p.Kind, "dispatcher: %s", p.Value)
			return
		}
		if err != nil || pdu == nil {
			return // types the dispatcher does not know are judged elsewhere
		}
		if i < 4 || c.Prob(1, 16) {
			var b []byte
			r.Call(site+".IEncode", func() { b, _ = pdu.IEncode() })
			ks = append(ks, kept{pdu, pdu.GetSequenceID(), b})
		}
	}
	r.Probe("dispatched_pdus_retained")
	for i, k := range ks {
		if k.pdu.GetSequenceID() != k.seq {
			r.Fail("C10", "dispatch", site, "changed-later", "kept PDU %d of %d: GetSequenceID() was %d when it was dispatched and is %d after %d further frames", i, len(ks), k.seq, k.pdu.GetSequenceID(), n)
			return
		}
		var b []byte
		var err error
		if p := r.Call(site+".IEncode", func() { b, err = k.pdu.IEncode() }); p == nil && err == nil && !bytes.Equal(b, k.img) {
			r.Fail("C10", "dispatch", site, "changed-later", "kept PDU %d of %d encodes differently after %d further frames were dispatched", i, len(ks), n)
			return
		}
	}
}

// checkSetSeq: on a PDU obtained from the library, setting a sequence number is visible through the getter and
// at the header's sequence offset, and leaves the command id alone.
// unsupportedStorm: a peer that speaks a dialect the package does not implement sends hundreds of frames with command
// ids the dispatcher does not know (defined by the protocol or not). The thousandth is answered like the first: with
// the 'unsupported' error - no panic, no nil PDU with a nil error, whatever the dispatcher counts or logs on the way.
func unsupportedStorm(r *core.Run, proto *spec.Proto) {
	c := r.C
	hl := proto.HeaderLen()
	known := map[uint32]bool{}
	for _, pd := range proto.PDUs {
		for _, id := range pd.IDs {
			known[id] = true
		}
	}
	var ids []uint32
	for id := uint32(1); id < 0x40 && len(ids) < 24; id++ {
		for _, x := range []uint32{id, id | 0x80000000} {
			if !known[x] {
				ids = append(ids, x)
			}
		}
	}
	ids = append(ids, 0, 0x80000000, 0xffffffff, uint32(c.Uint64())|0x00010000)
	r.Probe("storm_of_unsupported_frames")
	img := make([]byte, hl+8)
	binary.BigEndian.PutUint32(img, uint32(len(img)))
	for k := 0; k < 1300; k++ {
		id := ids[k%len(ids)]
		if known[id] {
			continue
		}
		binary.BigEndian.PutUint32(img[4:], id)
		var pdu protocol.PDU
		var err error
		if p := r.Call("Decode"+proto.Name, func() { pdu, err = dispatcher[proto.Name](img) }); p != nil {
			r.Fail("C10", "panic", p.Frame, p.Kind, "frame %d of a run of frames with unsupported command ids (this one %#x): %s", k+1, id, p.Value)
			return
		}
		if pdu == nil && err == nil {
			r.Fail("C10", "dispatch", "Decode"+proto.Name, "nil-nil", "frame %d of a run of unsupported frames (command id %#x): neither a PDU nor an error", k+1, id)
			return
		}
		if !errors.Is(err, protocol.ErrUnsupportedPacket) {
			r.Fail("C10", "dispatch", "Decode"+proto.Name, "not-unsupported", "frame %d of a run of unsupported frames (command id %#x) was answered with %v (PDU %v)", k+1, id, err, pdu != nil)
			return
		}
	}
}

// headerAccessors: the embedded header of an SGIP PDU has accessors of its own (the message id a gateway files the
// submit under); they must agree with the PDU's getter, and a report's submit id with the third word it carries.
func headerAccessors(r *core.Run, pdu protocol.PDU) {
	v := reflect.ValueOf(pdu)
	if v.Kind() != reflect.Pointer || v.Elem().Kind() != reflect.Struct {
		return
	}
	site := typeSite(pdu)
	if hf := v.Elem().FieldByName("Header"); hf.IsValid() && hf.CanAddr() {
		if h, ok := hf.Addr().Interface().(*sgip.Header); ok {
			r.Probe("sgip_header_accessors")
			if h.GetSequenceID() != pdu.GetSequenceID() {
				r.Fail("C10", "set-seq", site, "header-getter", "Header.GetSequenceID()=%d, the PDU's getter says %d", h.GetSequenceID(), pdu.GetSequenceID())
			}
			if want := strconv.FormatUint(uint64(pdu.GetSequenceID()), 10); h.GetMsgId() != want {
				r.Fail("C10", "set-seq", site, "header-msgid", "Header.GetMsgId()=%q for sequence number %d", h.GetMsgId(), pdu.GetSequenceID())
			}
		}
	}
	if rp, ok := pdu.(*sgip12.Report); ok {
		if rp.GetSubmitId() != rp.SubmitSequence[2] || rp.GetSubmitIdStr() != strconv.FormatUint(uint64(rp.SubmitSequence[2]), 10) {
			r.Fail("C10", "set-seq", site, "submit-id", "GetSubmitId()=%d GetSubmitIdStr()=%q, the report carries %d", rp.GetSubmitId(), rp.GetSubmitIdStr(), rp.SubmitSequence[2])
		}
	}
}

func checkSetSeq(r *core.Run, proto *spec.Proto, pdu protocol.PDU, how string) {
	c := r.C
	site := typeSite(pdu)
	ns := uint32(c.Uint64())
	if c.Prob(1, 3) {
		ns = []uint32{0, 1, 0x7fffffff, 0x80000000, 0xffffffff, 0x00010000, 0x01000000}[c.Intn(7)]
	}
	r.Probe("set_seq_on_" + how + "_pdu")
	var b0 []byte
	r.Call(site+".IEncode", func() { b0, _ = pdu.IEncode() })
	if p := r.Call(site+".SetSequenceID", func() { pdu.SetSequenceID(ns) }); p != nil {
		r.Fail("C10", "panic", p.Frame, p.Kind, "SetSequenceID on a %s %s: %s", how, site, p.Value)
		return
	}
	if pdu.GetSequenceID() != ns {
		r.Fail("C10", "set-seq", site, "getter", "SetSequenceID(%d) on a %s PDU, then GetSequenceID()=%d", ns, how, pdu.GetSequenceID())
	}
	var b []byte
	var err error
	if p := r.Call(site+".IEncode", func() { b, err = pdu.IEncode() }); p != nil || err != nil {
		return
	}
	_, cmd, hs, ok := headerBits(proto, b)
	if !ok {
		return
	}
	w := 0
	if proto.Header == "sgip20" {
		w = 2
	}
	if hs[w] != ns {
		r.Fail("C10", "set-seq", site, "header-offset", "sequence number %d set on a %s PDU is not at the header's sequence offset (found %d)", ns, how, hs[w])
	}
	if _, cmd0, _, ok0 := headerBits(proto, b0); ok0 && cmd0 != cmd {
		r.Fail("C10", "command", site, "after-set-seq", "command id changed from %#x to %#x after SetSequenceID", cmd0, cmd)
	}
	if got := pdu.GetCommand().ToUint32(); got != cmd {
		r.Fail("C10", "command", site, how, "GetCommand()=%#x but the encoded header carries %#x", got, cmd)
	}
}

// runDispatchIDs: every command id in 0..0x11f and 0x80000000..0x8000011f for
// each dispatcher: ids the package can encode decode to that type, all others
// give ErrUnsupportedPacket — never (nil, nil).
func runDispatchIDs(r *core.Run) {
	sp := Spec()
	proto := sp.Protos[int(r.Cfg.Index/dispatchIDs)%len(sp.Protos)]
	k := uint32(r.Cfg.Index % dispatchIDs)
	id := k
	switch {
	case k >= 0x240:
		// ids derived from the defined ones the way a confused peer would derive them: octets reversed, shifted by
		// one to three octets, rotated, the response bit in another place, another bit set
		j := int(k - 0x240)
		var defined []uint32
		for _, p := range proto.PDUs {
			defined = append(defined, p.IDs...)
		}
		x := defined[(j/dispatchVariants)%len(defined)]
		switch j % dispatchVariants {
		case 0:
			id = x<<24 | (x<<8)&0xff0000 | (x>>8)&0xff00 | x>>24
		case 1:
			id = x << 8
		case 2:
			id = x << 16
		case 3:
			id = x << 24
		case 4:
			id = x<<1 | x>>31
		case 5:
			id = x ^ 0x40000000
		case 6:
			id = x&0x7fffffff | (x>>31)<<30
		case 7:
			id = x | 0x00010000
		case 8:
			id = x | 0x00000100
		default:
			id = x ^ 0x80000000 ^ 0x01000000
		}
	case k >= 0x120:
		id = 0x80000000 | (k - 0x120)
	}
	pd := proto.ByID(id)
	var img []byte
	if pd != nil {
		c := core.NewSeedChooser(core.Mix(3, pd.Site(), uint64(id)))
		m := spec.Gen(c, pd, spec.GenOpt{MaxDests: 1, BinNoNul: true, NoTail: true, MaxBody32: 20})
		m.CmdID = id
		img, _ = spec.Build(m)
	} else {
		img = make([]byte, 96)
		binary.BigEndian.PutUint32(img, uint32(len(img)))
		binary.BigEndian.PutUint32(img[4:], id)
	}
	r.Probe("dispatch_id_" + proto.Name)
	var pdu protocol.PDU
	var err error
	label := "Decode" + proto.Name
	if p := r.Call(label, func() { pdu, err = dispatcher[proto.Name](img) }); p != nil {
		r.Fail("C10", "panic", p.Frame, p.Kind, "dispatcher on command id %#x: %s", id, p.Value)
		return
	}
	r.Event("%s id=%#x -> known=%v err=%v", proto.Name, id, pd != nil, err)
	if pdu == nil && err == nil {
		r.Fail("C10", "dispatch", label, "nil-nil", "command id %#x: neither a PDU nor an error", id)
		return
	}
	if pd == nil {
		if !errors.Is(err, protocol.ErrUnsupportedPacket) {
			got := "a PDU"
			if pdu != nil {
				got = typeSite(pdu)
			}
			r.Fail("C10", "dispatch", label, "not-unsupported", "command id %#x is not a PDU of %s; expected ErrUnsupportedPacket, got %s / %v", id, proto.Name, got, err)
		}
		return
	}
	if errors.Is(err, protocol.ErrUnsupportedPacket) {
		r.Fail("C10", "dispatch", pd.Site(), "unsupported", "the dispatcher does not know command id %#x although %s encodes it", id, pd.Site())
		return
	}
	if err != nil {
		r.Fail("C10", "dispatch", pd.Site(), "refused", "a conformant %s image was refused: %v", pd.Site(), err)
		return
	}
	if typeSite(pdu) != pd.Site() {
		r.Fail("C10", "dispatch", pd.Site(), "wrong-type", "command id %#x decoded as %s", id, typeSite(pdu))
		return
	}
	if got := pdu.GetCommand().ToUint32(); got != id {
		r.Fail("C10", "command", pd.Site(), "decoded", "decoded from command id %#x, GetCommand() reports %#x", id, got)
	}
	// re-encoding keeps the command id at its offset
	var b []byte
	if p := r.Call(pd.Site()+".IEncode", func() { b, _ = pdu.IEncode() }); p == nil && len(b) >= 8 {
		if got := binary.BigEndian.Uint32(b[4:]); got != id {
			r.Fail("C10", "command", pd.Site(), "re-encoded", "decoded from command id %#x, re-encoded header carries %#x", id, got)
		}
	}
}

// helperPackets: the byte-returning constructors (NewActiveTestPacket, …) must
// produce a PDU whose header carries the command of the type they name and the
// sequence number given, with a correct length prefix, and the dispatcher must
// map it back to that type.
func helperPackets(r *core.Run, proto *spec.Proto) {
	c := r.C
	seq := uint32(c.Uint64())
	if c.Bool() {
		seq = []uint32{0, 1, 0x7fffffff, 0x80000000, 0xffffffff}[c.Intn(5)]
	}
	type helper struct {
		name string
		site string
		f    func(uint32) []byte
	}
	var hs []helper
	switch proto.Name {
	case "cmpp20":
		hs = []helper{{"cmpp20.NewTerminatePacket", "cmpp20.PduTerminate", cmpp20.NewTerminatePacket}, {"cmpp20.NewActiveTestPacket", "cmpp20.PduActiveTest", cmpp20.NewActiveTestPacket}}
	case "smgp30":
		hs = []helper{{"smgp30.NewActiveTestPacket", "smgp30.ActiveTest", smgp30.NewActiveTestPacket}}
	case "smpp34":
		hs = []helper{{"smpp34.NewEnquireLinkReqBytes", "smpp34.EnquireLink", smpp34.NewEnquireLinkReqBytes}, {"smpp34.NewEnquireLinkRespBytes", "smpp34.EnquireLinkResp", smpp34.NewEnquireLinkRespBytes},
			{"smpp34.NewUnBindRespBytes", "smpp34.UnBindResp", smpp34.NewUnBindRespBytes}, {"smpp34.NewDeliverySMRespBytes", "smpp34.DeliverSmResp", smpp34.NewDeliverySMRespBytes}, {"smpp34.NewUnBindBytes", "smpp34.Unbind", smpp34.NewUnBindBytes}}
	}
	if len(hs) == 0 {
		return
	}
	h := hs[c.Intn(len(hs))]
	var b []byte
	if p := r.Call(h.name, func() { b = h.f(seq) }); p != nil {
		r.Fail("C10", "panic", p.Frame, p.Kind, "%s(%d): %s", h.name, seq, p.Value)
		return
	}
	// the packet is queued; before it is looked at, other helper packets are built (other connections' heartbeats)
	for k := c.Intn(3); k > 0; k-- {
		o := hs[c.Intn(len(hs))]
		r.Call(o.name, func() { _ = o.f(seq + uint32(k)*7919) })
		r.Probe("helper_packet_retained")
	}
	l, cmd, hseq, ok := headerBits(proto, b)
	if !ok || int(l) != len(b) {
		r.Fail("C10", "constructor", h.name, "length", "%d octets, length prefix %d", len(b), l)
		return
	}
	if hseq[0] != seq {
		r.Fail("C10", "constructor", h.name, "sequence", "sequence number %d given, header carries %d", seq, hseq[0])
	}
	var pdu protocol.PDU
	var err error
	if p := r.Call("Decode"+proto.Name, func() { pdu, err = dispatcher[proto.Name](b) }); p != nil || err != nil || pdu == nil {
		r.Fail("C10", "constructor", h.name, "dispatch", "the dispatcher does not accept the packet (%v)", err)
		return
	}
	if typeSite(pdu) != h.site {
		r.Fail("C10", "constructor", h.name, "type", "the packet decodes as %s (command id %#x), %s expected", typeSite(pdu), cmd, h.site)
		return
	}
	if got := pdu.GetCommand().ToUint32(); got != cmd {
		r.Fail("C10", "command", h.site, "constructor", "GetCommand()=%#x but the packet header carries %#x", got, cmd)
	}
}

// literalRequests: a request built as a plain struct value whose header carries
// no command id yet (callers fill in only the sequence number and rely on the
// type): the response it generates is still "a PDU obtained from the library",
// so its reported command must equal the command id in its encoded header and
// it must be the protocol's response type for that request.
func literalRequests(r *core.Run, proto *spec.Proto, reqTypes []*spec.PDU) {
	c := r.C
	pd := reqTypes[c.Intn(len(reqTypes))]
	req := ctor[pd.Site()]()
	seq := uint32(c.Uint64())
	req.SetSequenceID(seq)
	site := pd.Site()
	var resp protocol.PDU
	if p := r.Call(site+".GenEmptyResponse", func() { resp = req.GenEmptyResponse() }); p != nil {
		r.Fail("C10", "panic", p.Frame, p.Kind, "GenEmptyResponse on a zero-valued %s: %s", site, p.Value)
		return
	}
	if resp == nil {
		r.Fail("C10", "resp-type", site, "nil", "a request generated no response")
		return
	}
	want := proto.Name + "." + pd.Resp
	if typeSite(resp) != want {
		r.Fail("C10", "resp-type", site, "type", "GenEmptyResponse returned %s, the protocol's response is %s", typeSite(resp), want)
		return
	}
	var b []byte
	var err error
	if p := r.Call(want+".IEncode", func() { b, err = resp.IEncode() }); p != nil || err != nil {
		return
	}
	_, cmd, _, ok := headerBits(proto, b)
	if !ok {
		return
	}
	r.Probe("response_of_literal_request")
	if got := resp.GetCommand().ToUint32(); got != cmd {
		r.Fail("C10", "command", want, "generated-from-literal", "the response generated for a %s literal reports GetCommand()=%#x but its encoded header carries %#x", site, got, cmd)
	}
	if resp.GetSequenceID() != seq {
		r.Fail("C10", "resp-seq", site, "getter-literal", "response GetSequenceID()=%d, request %d", resp.GetSequenceID(), seq)
	}
}
