// Package scen holds the scenarios of the simulated SMS world. Each scenario
// is a workload, a fault / schedule space drawn from the run's choice tape, and
// oracles evaluated during the run and over its recorded history.
package scen

import (
	"verif/sim/core"
)

// Batch is a group of runs of one scenario mode. Exhaustive batches enumerate
// a finite space by run index; the others are seeded samples.
type Batch struct {
	Mode       string
	Count      uint64
	Exhaustive bool
	// Group > 1: the runs Index/Group share one seed (the same generated
	// workload) and Index%Group enumerates a finite fault / schedule space.
	Group uint64
}

type Scenario struct {
	Name   string
	Props  []string
	Bubble bool // run inside a testing/synctest bubble (fake clock, quiescence detection)
	Pools  bool // drain sync.Pool state before every run (pool-sensitive scenarios)
	Plan   func(prop, tier string) []Batch
	Run    func(r *core.Run)
	// Real / Stub document which components ran real library code and which
	// were harness stubs (reported in the evidence).
	Real []string
	Stub []string
	// Rule describes how cases are generated and what makes a run non-trivial.
	Rule string
}

var Registry = map[string]*Scenario{}

// PropScenario maps a property to the scenario that decides it.
var PropScenario = map[string]string{}

func Register(s *Scenario) {
	Registry[s.Name] = s
	for _, p := range s.Props {
		PropScenario[p] = s.Name
	}
}

func simple(quick, thorough uint64) func(prop, tier string) []Batch {
	return func(prop, tier string) []Batch {
		n := quick
		if tier == "thorough" {
			n = thorough
		}
		return []Batch{{Mode: "seeded", Count: n}}
	}
}
