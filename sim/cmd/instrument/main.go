// Command instrument copies the module under test into a scratch directory and inserts simulator yield points
// in front of every synchronisation operation it can recognise syntactically (the guidance's "go/ast-inserted
// yields in a scratch copy"). The hooks committed in /repo mark the places where the UNCHANGED library touches
// shared state; a change to the library may bring its own locks, atomics, channels and goroutines, and a logical
// race between two properly locked steps (check-then-act) is only reachable for the cooperative scheduler if a
// task can be switched between those steps. The inserted calls are calls of verifhook.Yield, a no-op unless the
// simulator has installed its scheduler:
//
//	verifhook.Yield("sync.lock", line)    before a statement that calls x.Lock() / x.RLock()
//	verifhook.Yield("sync.enter")         after it (the simulator counts: no task switch while a lock is held)
//	verifhook.Yield("sync.exit")          before a statement that calls x.Unlock() / x.RUnlock() (also deferred ones)
//	verifhook.Yield("sync.atomic", line)  before a statement that calls atomic.* or an atomic-looking method
//	verifhook.Yield("sync.wait", line)    before x.Wait(); once.Do(func…) is bracketed by enter/exit only
//	verifhook.Yield("chan.op", line)      before a statement with a channel send / receive / select; a send is followed by
//	                                      "sync.enter", a receive preceded by "sync.exit" (a channel used as a semaphore)
//	verifhook.Yield("go.stmt", line)      before and after a go statement
//	verifhook.Yield("go.entry", line)     first statement of a function literal started by go / x.Go / x.TryGo
//
// Usage: instrument <srcdir> <dstdir>. Test files, the verifhook package and directories without Go code are
// copied unchanged. The tool never fails on code it does not understand: it leaves such a file as it is.
package main

import (
	"bytes"
	"fmt"
	"go/ast"
	"go/format"
	"go/parser"
	"go/token"
	"io/fs"
	"os"
	"path/filepath"
	"strconv"
	"strings"
)

const hookImport = "github.com/hujm2023/go-sms-protocol/verifhook"

var lockNames = map[string]bool{"Lock": true, "RLock": true}
var unlockNames = map[string]bool{"Unlock": true, "RUnlock": true}
var atomicMethods = map[string]bool{"CompareAndSwap": true, "Swap": true, "Load": true, "Store": true, "LoadOrStore": true, "LoadAndDelete": true, "CompareAndDelete": true}
var waitNames = map[string]bool{"Wait": true}

type kinds struct {
	lock, unlock, atomic, wait, once, chanop, send, recv bool
}

// classify looks at the expressions evaluated by the statement itself, not at nested blocks or function literals.
func classify(n ast.Node) (k kinds) {
	if n == nil {
		return
	}
	ast.Inspect(n, func(x ast.Node) bool {
		switch v := x.(type) {
		case *ast.FuncLit, *ast.BlockStmt:
			return false
		case *ast.SendStmt:
			k.chanop, k.send = true, true
		case *ast.UnaryExpr:
			if v.Op == token.ARROW {
				k.chanop, k.recv = true, true
			}
		case *ast.CallExpr:
			if sel, ok := v.Fun.(*ast.SelectorExpr); ok {
				name := sel.Sel.Name
				if id, ok := sel.X.(*ast.Ident); ok && id.Name == "atomic" {
					k.atomic = true
				}
				switch {
				case lockNames[name] && len(v.Args) == 0:
					k.lock = true
				case unlockNames[name] && len(v.Args) == 0:
					k.unlock = true
				case atomicMethods[name]:
					k.atomic = true
				case waitNames[name] && len(v.Args) == 0:
					k.wait = true
				case name == "Do" && len(v.Args) == 1:
					if _, isLit := v.Args[0].(*ast.FuncLit); isLit {
						k.once = true
					}
				}
			}
		}
		return true
	})
	return
}

// headOf returns the parts of a compound statement that are evaluated where the statement stands.
func headOf(s ast.Stmt) []ast.Node {
	switch v := s.(type) {
	case *ast.IfStmt:
		return []ast.Node{v.Init, v.Cond}
	case *ast.ForStmt:
		return []ast.Node{v.Init, v.Cond}
	case *ast.RangeStmt:
		return []ast.Node{v.X}
	case *ast.SwitchStmt:
		return []ast.Node{v.Init, v.Tag}
	case *ast.TypeSwitchStmt:
		return []ast.Node{v.Init}
	case *ast.SelectStmt:
		return nil
	case *ast.LabeledStmt:
		return nil
	case *ast.BlockStmt:
		return nil
	default:
		return []ast.Node{s}
	}
}

func yieldStmt(site string, line int) ast.Stmt {
	args := []ast.Expr{&ast.BasicLit{Kind: token.STRING, Value: strconv.Quote(site)}}
	if line > 0 {
		args = append(args, &ast.BasicLit{Kind: token.INT, Value: strconv.Itoa(line)})
	}
	return &ast.ExprStmt{X: &ast.CallExpr{Fun: &ast.SelectorExpr{X: ast.NewIdent("verifhook"), Sel: ast.NewIdent("Yield")}, Args: args}}
}

type rewriter struct {
	fset    *token.FileSet
	changed bool
	skip    map[*ast.BlockStmt]bool // blocks this tool created itself
}

func (rw *rewriter) line(n ast.Node) int { return rw.fset.Position(n.Pos()).Line }

// entryYield puts a yield at the start of function literals that run as goroutines.
func (rw *rewriter) entryYield(call *ast.CallExpr, always bool) {
	if call == nil {
		return
	}
	mark := func(fl *ast.FuncLit) {
		if fl.Body == nil {
			return
		}
		fl.Body.List = append([]ast.Stmt{yieldStmt("go.entry", rw.line(fl))}, fl.Body.List...)
		rw.changed = true
	}
	if always {
		if fl, ok := call.Fun.(*ast.FuncLit); ok {
			mark(fl)
		}
	}
	if sel, ok := call.Fun.(*ast.SelectorExpr); ok && (sel.Sel.Name == "Go" || sel.Sel.Name == "TryGo") {
		for _, a := range call.Args {
			if fl, ok := a.(*ast.FuncLit); ok {
				mark(fl)
			}
		}
	}
}

func (rw *rewriter) list(in []ast.Stmt) []ast.Stmt {
	var out []ast.Stmt
	for _, s := range in {
		var k kinds
		for _, h := range headOf(s) {
			if h == nil {
				continue
			}
			kk := classify(h)
			k.lock = k.lock || kk.lock
			k.unlock = k.unlock || kk.unlock
			k.atomic = k.atomic || kk.atomic
			k.wait = k.wait || kk.wait
			k.once = k.once || kk.once
			k.chanop = k.chanop || kk.chanop
			k.send = k.send || kk.send
			k.recv = k.recv || kk.recv
		}
		ln := rw.line(s)
		_, isSelect := s.(*ast.SelectStmt)
		gs, isGo := s.(*ast.GoStmt)
		ds, isDefer := s.(*ast.DeferStmt)
		// goroutine entries (go func(){…}(), eg.Go(func…))
		if isGo {
			rw.entryYield(gs.Call, true)
		}
		if es, ok := s.(*ast.ExprStmt); ok {
			if c, ok := es.X.(*ast.CallExpr); ok {
				rw.entryYield(c, false)
			}
		}
		if as, ok := s.(*ast.AssignStmt); ok {
			for _, r := range as.Rhs {
				if c, ok := r.(*ast.CallExpr); ok {
					rw.entryYield(c, false)
				}
			}
		}
		switch {
		case isDefer && k.unlock && !k.lock:
			// defer mu.Unlock()  ->  defer func() { verifhook.Yield("sync.exit"); mu.Unlock() }()
			inner := &ast.ExprStmt{X: ds.Call}
			body := &ast.BlockStmt{List: []ast.Stmt{yieldStmt("sync.exit", 0), inner}}
			rw.skip[body] = true
			ds.Call = &ast.CallExpr{Fun: &ast.FuncLit{Type: &ast.FuncType{Params: &ast.FieldList{}}, Body: body}}
			out = append(out, s)
			rw.changed = true
			continue
		case isDefer:
			out = append(out, s)
			continue
		case k.lock && k.unlock:
			out = append(out, s) // both in one statement: leave it alone
			continue
		}
		pre, post := []ast.Stmt{}, []ast.Stmt{}
		if k.lock {
			pre = append(pre, yieldStmt("sync.lock", ln))
			post = append(post, yieldStmt("sync.enter", 0))
		}
		if k.unlock {
			pre = append(pre, yieldStmt("sync.exit", 0))
		}
		if k.atomic && !k.lock {
			pre = append(pre, yieldStmt("sync.atomic", ln))
		}
		if k.wait && !k.lock {
			pre = append(pre, yieldStmt("sync.wait", ln))
		}
		if k.once {
			// no task switch in front of once.Do: after the first call it is a no-op that hot paths make per character,
			// and a switch point per call multiplies the scheduler steps of a run by thousands. The bracket stays: a
			// task is never parked inside the function Do runs (the other callers of Do would block for real).
			pre = append(pre, yieldStmt("sync.enter", 0))
			post = append(post, yieldStmt("sync.exit", 0))
		}
		if k.chanop || isSelect {
			pre = append(pre, yieldStmt("chan.op", ln))
		}
		// a channel may be a semaphore (send = acquire, receive = release): what was sent and not yet received back
		// counts like a held lock. For other uses of channels the count is wrong in the safe direction: a goroutine
		// whose count stays above zero is simply never parked again.
		if k.send && !k.recv && !isSelect {
			post = append(post, yieldStmt("sync.enter", 0))
		}
		if k.recv && !k.send && !isSelect {
			pre = append(pre, yieldStmt("sync.exit", 0))
		}
		if isGo {
			pre = append(pre, yieldStmt("go.stmt", ln))
			post = append(post, yieldStmt("go.stmt", ln))
		}
		// a statement that leaves the function cannot be followed by anything
		switch s.(type) {
		case *ast.ReturnStmt, *ast.BranchStmt:
			post = nil
		}
		if _, isIf := s.(*ast.IfStmt); isIf && len(post) > 0 {
			// the lock taken in an if header is held inside the if: too irregular, leave the statement alone
			pre, post = nil, nil
		}
		if len(pre)+len(post) > 0 {
			rw.changed = true
		}
		out = append(out, pre...)
		out = append(out, s)
		out = append(out, post...)
	}
	return out
}

func (rw *rewriter) file(f *ast.File) {
	ast.Inspect(f, func(n ast.Node) bool {
		switch v := n.(type) {
		case *ast.BlockStmt:
			if !rw.skip[v] {
				v.List = rw.list(v.List)
			}
		case *ast.CaseClause:
			v.Body = rw.list(v.Body)
		case *ast.CommClause:
			v.Body = rw.list(v.Body)
		}
		return true
	})
}

func addImport(f *ast.File) {
	for _, im := range f.Imports {
		if im.Path.Value == strconv.Quote(hookImport) {
			return
		}
	}
	spec := &ast.ImportSpec{Path: &ast.BasicLit{Kind: token.STRING, Value: strconv.Quote(hookImport)}}
	decl := &ast.GenDecl{Tok: token.IMPORT, Specs: []ast.Spec{spec}}
	f.Decls = append([]ast.Decl{decl}, f.Decls...)
	f.Imports = append(f.Imports, spec)
}

func instrument(src []byte, name string) ([]byte, bool) {
	fset := token.NewFileSet()
	f, err := parser.ParseFile(fset, name, src, parser.ParseComments)
	if err != nil {
		return src, false
	}
	for _, d := range f.Decls {
		// a file that declares an identifier named verifhook would clash
		if gd, ok := d.(*ast.GenDecl); ok {
			for _, s := range gd.Specs {
				if vs, ok := s.(*ast.ValueSpec); ok {
					for _, n := range vs.Names {
						if n.Name == "verifhook" {
							return src, false
						}
					}
				}
			}
		}
	}
	rw := &rewriter{fset: fset, skip: map[*ast.BlockStmt]bool{}}
	rw.file(f)
	if !rw.changed {
		return src, false
	}
	addImport(f)
	var buf bytes.Buffer
	if err := format.Node(&buf, fset, f); err != nil {
		return src, false
	}
	// the result must still parse
	if _, err := parser.ParseFile(token.NewFileSet(), name, buf.Bytes(), 0); err != nil {
		return src, false
	}
	return buf.Bytes(), true
}

func main() {
	if len(os.Args) != 3 {
		fmt.Fprintln(os.Stderr, "usage: instrument <srcdir> <dstdir>")
		os.Exit(2)
	}
	src, dst := os.Args[1], os.Args[2]
	n, files := 0, 0
	err := filepath.WalkDir(src, func(p string, d fs.DirEntry, err error) error {
		if err != nil {
			return err
		}
		rel, _ := filepath.Rel(src, p)
		if d.IsDir() {
			if d.Name() == ".git" || rel == "doc" {
				return filepath.SkipDir
			}
			return os.MkdirAll(filepath.Join(dst, rel), 0o755)
		}
		if !d.Type().IsRegular() {
			return nil
		}
		b, err := os.ReadFile(p)
		if err != nil {
			return err
		}
		if strings.HasSuffix(p, ".go") && !strings.HasSuffix(p, "_test.go") && !strings.HasPrefix(rel, "verifhook"+string(filepath.Separator)) {
			files++
			if nb, ok := instrument(b, p); ok {
				b = nb
				n++
			}
		}
		return os.WriteFile(filepath.Join(dst, rel), b, 0o644)
	})
	if err != nil {
		fmt.Fprintln(os.Stderr, "instrument:", err)
		os.Exit(1)
	}
	fmt.Printf("instrumented %d of %d files\n", n, files)
}
