// driver orchestrates one check: it rebuilds the simulator against /repo's
// current working tree (with -tags verif), fans worker processes out over
// disjoint run-index ranges, merges what they found, consults the committed
// known-findings file, verifies every replay in a fresh process, writes the
// evidence file and sets the exit code (0 held / 1 violation / 2 harness trouble).
package main

import (
	"bufio"
	"encoding/binary"
	"encoding/json"
	"fmt"
	"io"
	"os"
	"os/exec"
	"path/filepath"
	"runtime"
	"sort"
	"strconv"
	"strings"
	"sync"
	"syscall"
	"time"

	"verif/sim/core"
)

const goBin = "go1.26.8"

// The framework is relocatable (background runs execute from a snapshot of the
// committed tree); the registered checks run from /verif.
var (
	verifDir   = envOr("VERIF_ROOT", "/verif")
	simDir     = filepath.Join(verifDir, "sim")
	buildDir   = envOr("VERIF_BUILD", filepath.Join(verifDir, ".build"))
	simTest    = filepath.Join(buildDir, "sim.test")
	simTest386 = filepath.Join(buildDir, "sim.386.test") // the same simulator as a 32-bit binary (platform leg)
	have386    = false
	// repoDir is the tree under test. The registered checks always use /repo; the framework's own
	// tooling (mutant evaluation, background runs) may point it at a scratch copy.
	repoDir = envOr("VERIF_REPO", "/repo")
	// outRoot receives evidence/ and replays/: /verif for the registered checks, the private build
	// directory when the framework's own tooling runs several evaluations side by side.
	outRoot = func() string {
		if os.Getenv("VERIF_BUILD") != "" {
			return os.Getenv("VERIF_BUILD")
		}
		return envOr("VERIF_ROOT", "/verif")
	}()
)

// buildRepo is the tree the simulator is compiled against: an instrumented scratch copy of repoDir (see
// cmd/instrument) or, when that cannot be made, repoDir itself.
var buildRepo = ""

// prepareInstrumented copies repoDir into the build directory with yield points in front of every synchronisation
// operation of the library (its own and whatever a change brought along). If anything goes wrong the plain tree is used.
func prepareInstrumented() {
	buildRepo = repoDir
	if os.Getenv("VERIF_NO_INSTRUMENT") != "" {
		return
	}
	instBin := filepath.Join(buildDir, "instrument")
	cmd := exec.Command(goBin, "build", "-o", instBin, "./cmd/instrument")
	cmd.Dir = simDir
	cmd.Env = goEnv()
	if out, err := cmd.CombinedOutput(); err != nil {
		fmt.Printf("note: instrumenter does not build (%v): %s; using the plain tree\n", err, tail(string(out), 300))
		return
	}
	inst := filepath.Join(buildDir, "inst")
	os.RemoveAll(inst)
	if out, err := exec.Command(instBin, repoDir, inst).CombinedOutput(); err != nil {
		fmt.Printf("note: instrumentation failed (%v): %s; using the plain tree\n", err, tail(string(out), 300))
		os.RemoveAll(inst)
		return
	}
	chk := exec.Command(goBin, "build", "-tags", "verif", "./...")
	chk.Dir = inst
	chk.Env = goEnv()
	if out, err := chk.CombinedOutput(); err != nil {
		// does the plain tree build? then the instrumentation broke it: fall back. Otherwise build() reports it.
		plain := exec.Command(goBin, "build", "-tags", "verif", "./...")
		plain.Dir = repoDir
		plain.Env = goEnv()
		if _, perr := plain.CombinedOutput(); perr == nil {
			fmt.Printf("note: the instrumented copy does not build: %s; using the plain tree\n", tail(string(out), 300))
		}
		os.RemoveAll(inst)
		return
	}
	buildRepo = inst
}

// modfileArgs returns the -modfile argument that redirects the replace directive to the tree compiled against.
func modfileArgs() []string {
	repoDir := buildRepo
	if repoDir == "" {
		repoDir = envOr("VERIF_REPO", "/repo")
	}
	if repoDir == "/repo" {
		return nil
	}
	b, err := os.ReadFile(filepath.Join(simDir, "go.mod"))
	if err != nil {
		harness("cannot read go.mod: %v", err)
	}
	alt := filepath.Join(buildDir, "go.alt.mod")
	os.WriteFile(alt, []byte(strings.Replace(string(b), "=> /repo", "=> "+repoDir, 1)), 0o644)
	if sum, err := os.ReadFile(filepath.Join(simDir, "go.sum")); err == nil {
		os.WriteFile(filepath.Join(buildDir, "go.alt.sum"), sum, 0o644)
	}
	return []string{"-modfile=" + alt}
}

func goEnv() []string {
	env := os.Environ()
	env = append(env, "GOFLAGS=-mod=mod", "GOPROXY=off", "GOSUMDB=off", "GOTOOLCHAIN=local", "CGO_ENABLED=0", "VERIF_ROOT="+verifDir)
	return env
}

func harness(format string, args ...any) {
	fmt.Printf("HARNESS-TROUBLE: "+format+"\n", args...)
	os.Exit(2)
}

// lowDisk empties the Go build cache when the file system that holds it is nearly full: every distinct tree the
// simulator is built against (three binaries) leaves some hundred megabytes there, and nothing else trims it in time.
func lowDisk() {
	var st syscall.Statfs_t
	if err := syscall.Statfs(buildDir, &st); err != nil {
		return
	}
	if free := st.Bavail * uint64(st.Bsize); free < 6<<30 {
		fmt.Printf("note: %d MiB of disk left: emptying the Go build cache\n", free>>20)
		c := exec.Command(goBin, "clean", "-cache")
		c.Env = goEnv()
		c.Run()
	}
}

func build() {
	os.MkdirAll(buildDir, 0o755)
	lowDisk()
	prepareInstrumented()
	// keep go.sum in step with /repo (the module under test is a replace target)
	if b, err := os.ReadFile(filepath.Join(repoDir, "go.sum")); err == nil {
		if old, _ := os.ReadFile(filepath.Join(simDir, "go.sum")); !strings.Contains(string(old), firstLine(string(b))) {
			os.WriteFile(filepath.Join(simDir, "go.sum"), append(old, b...), 0o644)
		}
	}
	cmd := exec.Command(goBin, append(append([]string{"test"}, modfileArgs()...), "-c", "-tags", "verif", "-o", simTest, ".")...)
	cmd.Dir = simDir
	cmd.Env = goEnv()
	out, err := cmd.CombinedOutput()
	if err != nil {
		fmt.Print(string(out))
		harness("simulator does not build against /repo's working tree: %v", err)
	}
	// platform leg: the width of int is part of the environment. A share of every plan also runs in a 386 binary.
	have386 = false
	if os.Getenv("VERIF_NO_386") == "" {
		// build tags are environment too: the platform binary is also the one built with the conventional "purego" and
		// "appengine" tags that libraries use to select fallback implementations
		c386 := exec.Command(goBin, append(append([]string{"test"}, modfileArgs()...), "-c", "-tags", "verif purego appengine", "-o", simTest386, ".")...)
		c386.Dir = simDir
		c386.Env = append(goEnv(), "GOARCH=386")
		if out, err := c386.CombinedOutput(); err != nil {
			// whose fault? if the library itself builds for 386 the simulator is not 32-bit clean: that is harness trouble,
			// not something to skip silently
			lib := exec.Command(goBin, "build", "-tags", "verif", "./...")
			lib.Dir = buildRepo
			lib.Env = append(goEnv(), "GOARCH=386")
			if _, lerr := lib.CombinedOutput(); lerr == nil {
				fmt.Print(string(out))
				harness("the simulator does not build for GOARCH=386 although the library does: %v", err)
			}
			fmt.Printf("note: the library under test does not build for GOARCH=386 (%v): %s; the platform leg is skipped\n", err, tail(string(out), 300))
		} else {
			have386 = true
		}
	}
}

func firstLine(s string) string {
	if i := strings.IndexByte(s, '\n'); i >= 0 {
		return s[:i]
	}
	return s
}

func loadKnown() (map[string]core.KnownEntry, string) {
	path := filepath.Join(verifDir, "known_findings.json")
	m := map[string]core.KnownEntry{}
	b, err := os.ReadFile(path)
	if err != nil {
		return m, path
	}
	var kf core.KnownFile
	if err := json.Unmarshal(b, &kf); err != nil {
		harness("known_findings.json does not parse: %v", err)
	}
	for _, e := range kf.Findings {
		if e.Status == "known" {
			m[e.Key] = e
		}
	}
	return m, path
}

type propInfo struct {
	Level string
}

var levels = map[string]string{"C03": "fault_enumeration", "C04": "fault_enumeration"}

func levelOf(p string) string {
	if l, ok := levels[p]; ok {
		return l
	}
	return "exploration"
}

func runWorker(prop, tier string, seed uint64, w, W int, outPrefix, knownPath string, scale int, bin ...string) (int, string) {
	exe, limit, platform := simTest, "ulimit -v 5242880; ", ""
	if len(bin) > 0 && bin[0] != "" {
		exe, limit = bin[0], "" // a 32-bit process cannot exceed its address space anyway
		platform = "386"
	}
	if len(bin) > 1 && bin[1] != "" {
		// the platform leg also narrows the CPU affinity: runtime.NumCPU() is part of the environment too
		if _, err := exec.LookPath("taskset"); err == nil {
			exe = "taskset -c " + bin[1] + " " + exe
			platform += "+cpus" + bin[1]
		}
	}
	cmd := exec.Command("bash", "-c", limit+"exec "+exe+" -test.run '^TestWorker$' -test.timeout 6h -test.count 1")
	cmd.Env = append(goEnv(),
		"VERIF_PROP="+prop, "VERIF_TIER="+tier, "VERIF_SEED="+strconv.FormatUint(seed, 10),
		"VERIF_WORKER="+strconv.Itoa(w), "VERIF_WORKERS="+strconv.Itoa(W), "VERIF_OUT="+outPrefix,
		"VERIF_KNOWN="+knownPath, "VERIF_SCALE_PCT="+strconv.Itoa(scale), "GOMAXPROCS=1", "VERIF_PLATFORM="+platform)
	out, err := cmd.CombinedOutput()
	code := 0
	if err != nil {
		code = 1
		if ee, ok := err.(*exec.ExitError); ok {
			code = ee.ExitCode()
		}
	}
	return code, string(out)
}

type replayResult struct {
	reproduced bool
	signature  string
	hangLabel  string
	output     string
	exit       int
}

// replayBinary picks the binary a replay file was recorded with (config.arch).
func replayBinary(path string) (string, string) {
	var rf struct {
		Config struct {
			Arch string `json:"arch"`
		} `json:"config"`
	}
	if b, err := os.ReadFile(path); err == nil {
		json.Unmarshal(b, &rf)
	}
	if strings.HasPrefix(rf.Config.Arch, "386") {
		if _, err := os.Stat(simTest386); err == nil {
			exe := simTest386
			if i := strings.Index(rf.Config.Arch, "+cpus"); i >= 0 {
				if _, err := exec.LookPath("taskset"); err == nil {
					exe = "taskset -c " + rf.Config.Arch[i+5:] + " " + exe
				}
			}
			return exe, ""
		}
	}
	return simTest, "ulimit -v 5242880; "
}

func runReplay(path, knownPath, isolate string, verbose bool, history ...bool) replayResult {
	exe, limit := replayBinary(path)
	cmd := exec.Command("bash", "-c", limit+"exec "+exe+" -test.run '^TestReplay$' -test.timeout 60m -test.count 1")
	cmd.Env = append(goEnv(), "VERIF_REPLAY="+path, "VERIF_KNOWN="+knownPath, "GOMAXPROCS=1")
	if len(history) > 0 && history[0] {
		cmd.Env = append(cmd.Env, "VERIF_REPLAY_HISTORY=1")
	}
	if isolate != "" {
		cmd.Env = append(cmd.Env, "VERIF_ISOLATE="+isolate)
	}
	if verbose {
		cmd.Env = append(cmd.Env, "VERIF_VERBOSE=1")
	}
	out, err := cmd.CombinedOutput()
	res := replayResult{output: string(out)}
	if err != nil {
		res.exit = 1
		if ee, ok := err.(*exec.ExitError); ok {
			res.exit = ee.ExitCode()
		}
	}
	sc := bufio.NewScanner(strings.NewReader(string(out)))
	sc.Buffer(make([]byte, 1<<20), 1<<24)
	for sc.Scan() {
		l := sc.Text()
		if strings.HasPrefix(l, "REPLAY ") {
			for _, f := range strings.Fields(l) {
				switch {
				case strings.HasPrefix(f, "signature="):
					res.signature = strings.TrimPrefix(f, "signature=")
				case f == "reproduced=true":
					res.reproduced = true
				case strings.HasPrefix(f, "hang="):
					res.hangLabel = strings.TrimPrefix(f, "hang=")
				}
			}
		}
	}
	return res
}

// runsFreely replays a history without the cooperative scheduler (VERIF_FREERUN) and reports whether it ran to
// completion within two minutes of real time.
func runsFreely(path, knownPath string) bool {
	exe, limit := replayBinary(path)
	cmd := exec.Command("bash", "-c", limit+"exec timeout 120 "+exe+" -test.run '^TestReplay$' -test.timeout 60m -test.count 1")
	cmd.Env = append(goEnv(), "VERIF_REPLAY="+path, "VERIF_KNOWN="+knownPath, "VERIF_FREERUN=1", "GOMAXPROCS=4")
	out, err := cmd.CombinedOutput()
	return err == nil && strings.Contains(string(out), "REPLAY ") && !strings.Contains(string(out), "hang=")
}

func isLibraryLabel(l string) bool {
	return l != "" && l != "harness" && l != "sched"
}

func main() {
	if len(os.Args) < 2 {
		fmt.Println("usage: driver <property> <quick|thorough> | replay <file> | setup | selftest [props…]")
		os.Exit(2)
	}
	switch os.Args[1] {
	case "setup":
		build()
		fmt.Println("setup ok")
		return
	case "replay":
		if len(os.Args) < 3 {
			harness("replay needs a file")
		}
		build()
		_, kp := loadKnown()
		{
			var rf core.ReplayFile
			b, _ := os.ReadFile(os.Args[2])
			json.Unmarshal(b, &rf)
			if rf.Config.Mode == "race" {
				buildRace()
				out, _ := runRaceProc(rf.Seed, int(rf.Config.Index), 2000, 120)
				if strings.Contains(out, "WARNING: DATA RACE") || strings.Contains(out, "RACELEG MISMATCH") {
					fmt.Print(tail(out, 3000))
					fmt.Printf("VIOLATION property=%s replay=%s\n", rf.Property, os.Args[2])
					os.Exit(1)
				}
				fmt.Println("the race leg did not report the finding again (it observes real executions; replay is probabilistic)")
				os.Exit(0)
			}
		}
		res := runReplay(os.Args[2], kp, "", os.Getenv("VERIF_VERBOSE") != "")
		if !res.reproduced {
			var rf core.ReplayFile
			b, _ := os.ReadFile(os.Args[2])
			if json.Unmarshal(b, &rf) == nil && rf.History != nil && rf.Tape == nil {
				res = runReplay(os.Args[2], kp, "", false, true)
			}
		}
		fmt.Print(res.output)
		var rf core.ReplayFile
		b, _ := os.ReadFile(os.Args[2])
		json.Unmarshal(b, &rf)
		if strings.Contains(rf.Key, "|crash|") && res.exit != 0 && !strings.Contains(res.output, "HARNESS") {
			fmt.Println("the process died again while replaying this run")
			res.reproduced = true
		}
		if res.reproduced {
			fmt.Printf("VIOLATION property=%s replay=%s\n", rf.Property, os.Args[2])
			os.Exit(1)
		}
		fmt.Println("replay did not reproduce the finding on this tree")
		os.Exit(0)
	case "selftest":
		build()
		selftest(os.Args[2:])
		return
	}
	prop := os.Args[1]
	tier := "quick"
	if len(os.Args) > 2 {
		tier = os.Args[2]
	}
	if t := os.Getenv("VERIF_TIER"); t != "" && len(os.Args) <= 2 {
		tier = t
	}
	seed := uint64(1)
	if s := os.Getenv("VERIF_SEED"); s != "" {
		if v, err := strconv.ParseUint(s, 10, 64); err == nil {
			seed = v
		} else if v, err := strconv.ParseInt(s, 10, 64); err == nil {
			seed = uint64(v)
		}
	}
	scale := 100
	if s := os.Getenv("VERIF_SCALE_PCT"); s != "" {
		scale, _ = strconv.Atoi(s)
	}
	start := time.Now()
	build()
	known, knownPath := loadKnown()
	W := runtime.NumCPU()
	if W > 16 {
		W = 16
	}
	if s := os.Getenv("VERIF_WORKERS"); s != "" {
		W, _ = strconv.Atoi(s)
	}
	outDir := filepath.Join(buildDir, "out", prop)
	os.RemoveAll(outDir)
	os.MkdirAll(outDir, 0o755)

	type wres struct {
		code int
		out  string
	}
	// the platform leg: X extra workers of the 386 binary, each taking one slice of a 4W-fold partition of the plan
	// (so about X/4W of the runs are also executed where an int has 32 bits)
	X := 0
	if have386 {
		X = 4
	}
	prefixes := make([]string, W+X)
	results := make([]wres, W+X)
	var wg sync.WaitGroup
	for w := 0; w < W+X; w++ {
		wg.Add(1)
		prefixes[w] = filepath.Join(outDir, fmt.Sprintf("w%02d", w))
		go func(w int) {
			defer wg.Done()
			if w < W {
				code, out := runWorker(prop, tier, seed, w, W, prefixes[w], knownPath, scale)
				results[w] = wres{code, out}
				return
			}
			code, out := runWorker(prop, tier, seed, (w-W)*W+3, 4*W, prefixes[w], knownPath, scale, simTest386, []string{"0", "0-1", "0-2", "0-4"}[(w-W)%4])
			results[w] = wres{code, out}
		}(w)
	}
	wg.Wait()
	Wmain := W
	W += X

	stats := core.NewStats()
	distinct := 0
	var sigFiles []string
	var violations []core.ReplayFile
	seenKey := map[string]bool{}
	trouble := ""
	for w := 0; w < W; w++ {
		prefix := filepath.Join(outDir, fmt.Sprintf("w%02d", w))
		var wo core.WorkerOut
		b, err := os.ReadFile(prefix + ".json")
		if err == nil {
			json.Unmarshal(b, &wo)
		}
		if wo.Stats != nil {
			stats.Merge(wo.Stats)
		}
		sigFiles = append(sigFiles, prefix+".sigs")
		for _, v := range wo.Violations {
			if !seenKey[v.Key] {
				seenKey[v.Key] = true
				violations = append(violations, v)
			}
		}
		switch {
		case results[w].code == 0 && wo.Done:
		case results[w].code == 3 && wo.Hang != nil:
			h := wo.Hang
			if !isLibraryLabel(h.Label) {
				trouble = fmt.Sprintf("worker %d made no progress for 30 s in harness code (label %q, run %s/%d)", w, h.Label, h.Config.Mode, h.Config.Index)
				continue
			}
			key := prop + "|hang|" + h.Label + "|no-progress-30s"
			if _, ok := known[key]; ok {
				stats.KnownSeen[key]++
				continue
			}
			if !seenKey[key] {
				seenKey[key] = true
				violations = append(violations, core.ReplayFile{Property: prop, Scenario: h.Config.Scenario, Config: h.Config, Seed: seed, RunSeed: h.Seed, Key: key,
					Detail: "library call " + h.Label + " made no progress for 30 s of real time (every legitimate call finishes in microseconds)"})
			}
		default:
			// crash (fatal error, out of memory under the 5 GiB address-space limit, killed)
			cur, _ := os.ReadFile(prefix + ".cur")
			f := strings.Fields(string(cur))
			if len(f) >= 4 {
				idx, _ := strconv.ParseUint(f[2], 10, 64)
				rs, _ := strconv.ParseUint(f[3], 10, 64)
				cfg := core.Config{Property: prop, Tier: tier, Mode: f[1], Index: idx}
				rf := core.ReplayFile{Property: prop, Config: cfg, Seed: seed, RunSeed: rs}
				// isolate: re-run that single run with the label of every library call persisted
				tmp := filepath.Join(outDir, fmt.Sprintf("isolate-%d.json", w))
				rf.Scenario = scenarioOf(prop)
				rf.Config.Scenario = rf.Scenario
				if len(f) >= 5 {
					rf.Config.Group, _ = strconv.ParseUint(f[4], 10, 64)
				}
				jb, _ := json.Marshal(rf)
				os.WriteFile(tmp, jb, 0o644)
				iso := filepath.Join(outDir, fmt.Sprintf("isolate-%d.cur", w))
				rr := runReplay(tmp, knownPath, iso, true)
				lb, _ := os.ReadFile(iso)
				label := strings.TrimSpace(string(lb))
				if rr.exit == 0 {
					// alone in a fresh process the run survives (the worker died of what had piled up, e.g. many huge
					// allocations before a collection): what the run itself reports is the finding
					took := false
					for _, l := range strings.Split(rr.output, "\n") {
						if !strings.HasPrefix(l, "FINDING ") {
							continue
						}
						kd := strings.SplitN(strings.TrimPrefix(l, "FINDING "), " :: ", 2)
						key := kd[0]
						if _, ok := known[key]; ok || !strings.HasPrefix(key, prop+"|") || seenKey[key] {
							continue
						}
						seenKey[key] = true
						rf.Key = key
						if len(kd) > 1 {
							rf.Detail = kd[1] + " (the worker process that met this run first died; re-run alone in a fresh process the run reports this)"
						}
						violations = append(violations, rf)
						took = true
						break
					}
					if took {
						continue
					}
				}
				if strings.Contains(rr.output, "HARNESS PANIC") || strings.Contains(results[w].out, "HARNESS PANIC") {
					trouble = fmt.Sprintf("worker %d: the harness itself panicked: %s", w, tail(results[w].out+rr.output, 1200))
					continue
				}
				if rr.exit != 0 && isLibraryLabel(label) {
					key := prop + "|crash|" + label + "|process-died"
					if !seenKey[key] {
						seenKey[key] = true
						rf.Key = key
						rf.Detail = "the process died inside library call " + label + " (fatal error / out of memory under a 5 GiB address-space limit); tail of output: " + tail(rr.output, 400)
						violations = append(violations, rf)
					}
					continue
				}
			}
			trouble = fmt.Sprintf("worker %d exited with status %d; output tail: %s", w, results[w].code, tail(results[w].out, 1500))
		}
	}
	distinct = countDistinct(sigFiles)
	if trouble != "" && len(violations) == 0 {
		harness("%s", trouble)
	}
	trouble = "" // violations were found: they are reported, the trouble is secondary

	// verify every replay in a fresh process before it is reported
	os.MkdirAll(filepath.Join(outRoot, "replays"), 0o755)
	var lines []string
	var unverified []string
	extra := map[string]any{}
	if W > Wmain {
		extra["platform_leg"] = map[string]any{"goarch": "386", "workers": W - Wmain, "share_of_plan": fmt.Sprintf("%d/%d", W-Wmain, 4*Wmain),
			"what": "the same simulator built for GOARCH=386 with the build tags purego and appengine (32-bit int, 4-octet alignment of 64-bit words, fallback implementations) executes this share of the plan, each of its workers confined to 1, 2, 3 or 5 CPUs (runtime.NumCPU); its findings replay in the 386 binary under the same affinity"}
	}
	if prop == "C13" {
		lines = append(lines, raceLeg(tier, seed, known, stats, extra)...)
	}
	for i := range violations {
		v := &violations[i]
		path := filepath.Join(outRoot, "replays", fmt.Sprintf("%s-seed%d-%s-%d-%d.json", prop, seed, v.Config.Mode, v.Config.Index, i))
		jb, _ := json.MarshalIndent(v, "", " ")
		os.WriteFile(path, jb, 0o644)
		if strings.Contains(v.Key, "|hang|") && (prop == "C09" || prop == "C12" || prop == "C13") && runsFreely(path, knownPath) {
			// the same history runs to completion when the tasks are plain goroutines: what stood still was the
			// simulator (it had parked a task that held something another task needed), not the library
			fmt.Printf("note: %s does not occur without the cooperative scheduler (the history completes on free-running goroutines): a deadlock of the simulator, not reported\n", v.Key)
			os.Remove(path)
			continue
		}
		if strings.Contains(v.Key, "|hang|") || strings.Contains(v.Key, "|crash|") {
			lines = append(lines, fmt.Sprintf("VIOLATION property=%s replay=%s", prop, path))
			fmt.Printf("finding %s: %s\n", v.Key, v.Detail)
			continue
		}
		how := verifyReplay(v, path, knownPath)
		if how == "" {
			// a finding that does not replay exactly in a fresh process is never reported as a violation
			unverified = append(unverified, v.Key)
			os.Remove(path)
			continue
		}
		if how != "as-found" {
			fmt.Printf("note: %s replays exactly in fresh processes %s\n", v.Key, how)
		}
		fmt.Printf("finding %s: %s\n  minimised tape %d -> %d entries (%d minimiser runs), replay verified in a fresh process\n", v.Key, v.Detail, v.OrigTape, len(v.Tape), v.MinRuns)
		lines = append(lines, fmt.Sprintf("VIOLATION property=%s replay=%s", prop, path))
	}

	for _, k := range core.SortedKeys(stats.KnownSeen) {
		fmt.Printf("KNOWN-FINDING: property=%s %s — %s (seen in %d runs)\n", prop, k, known[k].What, stats.KnownSeen[k])
	}
	wall := time.Since(start).Seconds()
	writeEvidence(prop, tier, seed, stats, distinct, len(lines), wall, W, extra)
	if stats.Runs == 0 {
		stats.Runs = 1 // every worker died before reporting; the violation above stands, the evidence stays schema-valid
	}
	fmt.Printf("%s %s: %d simulated runs (%d non-trivial, %d distinct), %d events, faults fired %v, %.1fs\n", prop, tier, stats.Runs, stats.Nontrivial, distinct, stats.Events, compact(stats.Faults), wall)
	for _, l := range lines {
		fmt.Println(l)
	}
	if len(lines) > 0 {
		os.Exit(1)
	}
	if len(unverified) > 0 {
		for _, u := range unverified {
			fmt.Println("unverified finding (did not replay exactly in a fresh process, not reported): " + u)
		}
		harness("%d finding(s) could not be replayed exactly and none could: non-deterministic harness or history-dependent library state", len(unverified))
	}
	if trouble != "" {
		harness("%s", trouble)
	}
}

// verifyReplay re-executes a replay file in fresh processes. The fresh-process
// execution is the reference: a replay is accepted when it reproduces the
// finding with the signature recorded in the file, or - when the worker that
// found it had a different process history (library state that outlives a run,
// e.g. a leaked pooled or static buffer) - when two fresh processes agree with
// each other; the file is then re-based on that execution. If the minimised
// tape depends on the finder's history, the unminimised run (seed only) is
// tried the same way. "" = could not be replayed exactly.
func verifyReplay(v *core.ReplayFile, path, knownPath string) string {
	rr := runReplay(path, knownPath, "", false)
	if rr.reproduced && (v.Signature == "" || rr.signature == v.Signature) {
		return "as-found"
	}
	if rr.reproduced {
		rr2 := runReplay(path, knownPath, "", false)
		if rr2.reproduced && rr2.signature == rr.signature {
			v.Signature = rr.signature
			jb, _ := json.MarshalIndent(v, "", " ")
			os.WriteFile(path, jb, 0o644)
			return "(signature re-based on the fresh-process execution; the finder's process history differed)"
		}
	}
	// fall back to the unminimised run, identified by its seed alone
	seedOnly := *v
	seedOnly.Tape = nil
	seedOnly.Trace = nil
	seedOnly.Signature = ""
	jb, _ := json.MarshalIndent(seedOnly, "", " ")
	os.WriteFile(path, jb, 0o644)
	a := runReplay(path, knownPath, "", false)
	b := runReplay(path, knownPath, "", false)
	if a.reproduced && b.reproduced && a.signature == b.signature {
		seedOnly.Signature = a.signature
		jb, _ = json.MarshalIndent(seedOnly, "", " ")
		os.WriteFile(path, jb, 0o644)
		*v = seedOnly
		return "(unminimised: the run is identified by its seed, the minimised tape depended on the finder's process history)"
	}
	// last resort: the finding needs library state left behind by earlier runs of the finder: replay its whole history
	if seedOnly.History != nil {
		ha := runReplay(path, knownPath, "", false, true)
		hb := runReplay(path, knownPath, "", false, true)
		if ha.reproduced && hb.reproduced && ha.signature == hb.signature {
			seedOnly.Signature = ha.signature
			seedOnly.Detail += " [reproduces only after the earlier runs of the same worker: replay re-executes that history (history field)]"
			jb, _ = json.MarshalIndent(seedOnly, "", " ")
			os.WriteFile(path, jb, 0o644)
			*v = seedOnly
			return "(history replay: the finding depends on library state left behind by earlier runs of worker " + fmt.Sprint(seedOnly.History.Worker) + ")"
		}
	}
	return ""
}

func short12(s string) string {
	if len(s) > 12 {
		return s[:12]
	}
	return s
}

var simRace = filepath.Join(buildDir, "sim.race.test")

func buildRace() {
	cmd := exec.Command(goBin, append(append([]string{"test"}, modfileArgs()...), "-race", "-c", "-tags", "verif", "-o", simRace, ".")...)
	cmd.Dir = simDir
	env := goEnv()
	for i, e := range env {
		if e == "CGO_ENABLED=0" {
			env[i] = "CGO_ENABLED=1"
		}
	}
	cmd.Env = env
	out, err := cmd.CombinedOutput()
	if err != nil {
		fmt.Print(string(out))
		harness("the race-detector build of the simulator failed: %v", err)
	}
}

func runRaceProc(seed uint64, procs int, runs, seconds int, coldFrom ...int) (string, int) {
	cmd := exec.Command(simRace, "-test.run", "^TestRaceLeg$", "-test.count", "1", "-test.timeout", "2h")
	cmd.Env = append(goEnv(), "VERIF_RACE=1", "GORACE=halt_on_error=1 exitcode=66", fmt.Sprintf("VERIF_RACE_PROCS=%d", procs),
		fmt.Sprintf("VERIF_SEED=%d", seed), fmt.Sprintf("VERIF_RACE_RUNS=%d", runs), fmt.Sprintf("VERIF_RACE_SECONDS=%d", seconds))
	if len(coldFrom) > 0 {
		// cold start: a fresh process whose first workload runs concurrently before anything else touched the library
		cmd.Env = append(cmd.Env, "VERIF_RACE_COLD=1", fmt.Sprintf("VERIF_RACE_FROM=%d", coldFrom[0]))
	}
	out, err := cmd.CombinedOutput()
	code := 0
	if err != nil {
		code = 1
		if ee, ok := err.(*exec.ExitError); ok {
			code = ee.ExitCode()
		}
	}
	return string(out), code
}

func raceFrame(out string) string {
	// first frame inside the module under test in the first race report
	for _, l := range strings.Split(out, "\n") {
		l = strings.TrimSpace(l)
		if strings.HasPrefix(l, "github.com/hujm2023/go-sms-protocol") && !strings.Contains(l, "verifhook") {
			f := strings.TrimPrefix(l, "github.com/hujm2023/go-sms-protocol")
			f = strings.TrimPrefix(f, "/")
			if i := strings.Index(f, "("); i > 0 && strings.HasSuffix(f, "()") {
				f = strings.TrimSuffix(f, "()")
			}
			return f
		}
	}
	return "unknown"
}

// raceLeg is leg B of C13: seeded workloads free-running under the race
// detector at GOMAXPROCS 1, 4 and 16. It observes real executions; a data race
// report or a result that differs from the sequential pass is a violation.
func raceLeg(tier string, seed uint64, known map[string]core.KnownEntry, stats *core.Stats, extra map[string]any) []string {
	buildRace()
	runs, seconds := 150, 10
	if tier == "thorough" {
		runs, seconds = 1000000, 300
	}
	procs := []int{1, 4, 16}
	// cold-start processes: fresh process, first workload concurrent before any sequential call
	nCold := 24
	if tier == "thorough" {
		nCold = 200
	}
	for i := 0; i < nCold; i++ {
		procs = append(procs, []int{4, 16, 8}[i%3])
	}
	outs := make([]string, len(procs))
	codes := make([]int, len(procs))
	var wg sync.WaitGroup
	sem := make(chan struct{}, 8)
	for i, p := range procs {
		wg.Add(1)
		go func(i, p int) {
			defer wg.Done()
			if i < 3 {
				outs[i], codes[i] = runRaceProc(seed, p, runs, seconds)
				return
			}
			sem <- struct{}{}
			defer func() { <-sem }()
			outs[i], codes[i] = runRaceProc(seed, p, 2, 20, 1000+i)
		}(i, p)
	}
	wg.Wait()
	var lines []string
	summary := []string{}
	for i, p := range procs {
		out := outs[i]
		for _, l := range strings.Split(out, "\n") {
			if strings.HasPrefix(l, "RACELEG DONE") {
				summary = append(summary, strings.TrimPrefix(l, "RACELEG DONE "))
			}
		}
		key, detail := "", ""
		switch {
		case strings.Contains(out, "WARNING: DATA RACE") && raceFrame(out) == "unknown":
			// a race that involves no frame of the module under test is a defect of the harness, never a violation
			harness("race detector report without any frame of the library at GOMAXPROCS=%d: %s", p, tail(out, 2500))
		case strings.Contains(out, "WARNING: DATA RACE"):
			key = "C13|data-race|" + raceFrame(out) + "|race-detector"
			detail = fmt.Sprintf("the race detector reported a data race at GOMAXPROCS=%d (workload seed %d); report: %s", p, seed, tail(out[strings.Index(out, "WARNING: DATA RACE"):], 1800))
		case strings.Contains(out, "RACELEG MISMATCH"):
			key = "C13|differs-from-sequential|race-leg|free-running"
			detail = out[strings.Index(out, "RACELEG MISMATCH"):]
			if j := strings.IndexByte(detail, '\n'); j > 0 {
				detail = detail[:j]
			}
		case codes[i] != 0:
			harness("race leg at GOMAXPROCS=%d exited with status %d: %s", p, codes[i], tail(out, 1500))
		}
		if key == "" {
			continue
		}
		if _, ok := known[key]; ok {
			stats.KnownSeen[key]++
			continue
		}
		path := filepath.Join(outRoot, "replays", fmt.Sprintf("C13-race-seed%d-procs%d.json", seed, p))
		logp := strings.TrimSuffix(path, ".json") + ".log"
		os.WriteFile(logp, []byte(out), 0o644)
		rf := core.ReplayFile{Property: "C13", Scenario: "concurrent", Config: core.Config{Property: "C13", Scenario: "concurrent", Tier: tier, Mode: "race", Index: uint64(p)}, Seed: seed, Key: key, Detail: detail}
		jb, _ := json.MarshalIndent(rf, "", " ")
		os.WriteFile(path, jb, 0o644)
		fmt.Printf("finding %s: %s\n", key, tail(detail, 600))
		lines = append(lines, fmt.Sprintf("VIOLATION property=C13 replay=%s", path))
	}
	extra["race_leg"] = map[string]any{"gomaxprocs": procs[:3], "cold_start_processes": len(procs) - 3, "summary": summary, "note": "free-running real threads under the race detector; interleaving NOT decided by the simulator"}
	return lines
}

func compact(m map[string]uint64) string {
	var sb strings.Builder
	for i, k := range core.SortedKeys(m) {
		if i > 0 {
			sb.WriteByte(' ')
		}
		fmt.Fprintf(&sb, "%s=%d", k, m[k])
	}
	return sb.String()
}

func tail(s string, n int) string {
	if len(s) > n {
		return "…" + s[len(s)-n:]
	}
	return s
}

type scenInfo struct {
	Name string   `json:"name"`
	Real []string `json:"real"`
	Stub []string `json:"stub"`
	Rule string   `json:"rule"`
}

// scenario metadata is asked from the test binary so the driver does not link the library
func scenMeta(prop string) scenInfo {
	cmd := exec.Command(simTest, "-test.run", "^TestMeta$", "-test.count", "1")
	cmd.Env = append(goEnv(), "VERIF_META_PROP="+prop)
	out, _ := cmd.CombinedOutput()
	var si scenInfo
	for _, l := range strings.Split(string(out), "\n") {
		if strings.HasPrefix(l, "META ") {
			json.Unmarshal([]byte(strings.TrimPrefix(l, "META ")), &si)
		}
	}
	return si
}

func scenarioOf(prop string) string { return scenMeta(prop).Name }

func writeEvidence(prop, tier string, seed uint64, st *core.Stats, distinct, violations int, wall float64, workers int, extra map[string]any) {
	meta := scenMeta(prop)
	samples := []any{}
	for _, s := range st.Samples {
		samples = append(samples, s)
	}
	if len(samples) == 0 {
		samples = append(samples, "no non-trivial run in this batch")
	}
	exh := false
	var exModes []string
	for k, v := range st.Exhaustive {
		if v {
			exModes = append(exModes, k)
		}
	}
	sort.Strings(exModes)
	cov := map[string]any{
		"evaluations":            st.Runs,
		"distinct_nontrivial":    distinct,
		"rule":                   meta.Rule,
		"samples":                samples,
		"exhaustive":             exh,
		"exhaustive_submodes":    exModes,
		"nontrivial_runs":        st.Nontrivial,
		"events":                 st.Events,
		"scheduler_steps":        st.Steps,
		"tape_entries":           st.TapeEntries,
		"simulated_time_s":       float64(st.SimTimeNs) / 1e9,
		"runs_per_hour":          float64(st.Runs) / wall * 3600,
		"seeds":                  map[string]any{"VERIF_SEED": seed, "run_seeds": st.Runs, "derivation": "run seed = mix(VERIF_SEED, property/mode, run index)"},
		"faults_fired":           st.Faults,
		"probes":                 st.Probes,
		"distinct_interleavings": distinct,
		"real_components":        meta.Real,
		"stub_components":        meta.Stub,
		"known_findings_seen":    st.KnownSeen,
		"workers":                workers,
		"scenario":               meta.Name,
	}
	for k, v := range extra {
		cov[k] = v
	}
	ev := map[string]any{
		"property_id": prop,
		"tier":        tier,
		"seed":        seed,
		"level":       levelOf(prop),
		"coverage":    cov,
		"assumptions": []string{
			"the simulator decides arrival patterns, faults, clock and task interleaving only at the seams listed in DESIGN.md section 5 and at the yield points cmd/instrument inserts at build time in front of the lock, atomic, channel, wait and go statements of the library; between two yield sites a task runs atomically",
			"a clean batch is evidence over the sampled runs, not a proof",
			"reference models (spec tables, reference text decoders, crypto/md5) are trusted",
		},
		"wall_s":     wall,
		"violations": violations,
	}
	os.MkdirAll(filepath.Join(outRoot, "evidence"), 0o755)
	b, _ := json.MarshalIndent(ev, "", " ")
	os.WriteFile(filepath.Join(outRoot, "evidence", prop+".json"), b, 0o644)
}

// selftest: determinism of the simulator itself. Every property's first runs
// are executed in several fresh processes at different GOMAXPROCS; the
// signatures (hash of the complete event log) must be identical.
func selftest(props []string) {
	if len(props) == 0 {
		props = []string{"C01", "C02", "C03", "C04", "C06", "C07", "C09", "C10", "C11", "C12", "C13", "C14", "C15", "C16", "C18", "C20"}
	}
	_, kp := loadKnown()
	bad := 0
	for _, p := range props {
		var ref string
		procs := []string{"1", "4", "16", "1", "4", "16"}
		outs := make([]string, len(procs))
		var wg sync.WaitGroup
		for i, pr := range procs {
			wg.Add(1)
			go func(i int, pr string) {
				defer wg.Done()
				cmd := exec.Command(simTest, "-test.run", "^TestSignature$", "-test.count", "1", "-test.timeout", "30m")
				cmd.Env = append(goEnv(), "VERIF_SIG_PROP="+p, "VERIF_SIG_PROCS="+pr, "VERIF_KNOWN="+kp, "VERIF_SIG_RUNS="+envOr("VERIF_SIG_RUNS", "200"), "VERIF_SEED="+envOr("VERIF_SEED", "1"))
				out, _ := cmd.CombinedOutput()
				var keep []string
				for _, l := range strings.Split(string(out), "\n") {
					if strings.HasPrefix(l, "SIG ") {
						keep = append(keep, l)
					}
				}
				outs[i] = strings.Join(keep, "\n")
			}(i, pr)
		}
		wg.Wait()
		ref = outs[0]
		ok := ref != ""
		for i := range outs {
			if outs[i] != ref {
				ok = false
				a, b := strings.Split(ref, "\n"), strings.Split(outs[i], "\n")
				for j := 0; j < len(a) && j < len(b); j++ {
					if a[j] != b[j] {
						fmt.Printf("  %s: first divergence (process 0 vs %d, GOMAXPROCS %s):\n    %s\n    %s\n", p, i, procs[i], a[j], b[j])
						break
					}
				}
			}
		}
		n := len(strings.Split(ref, "\n"))
		if ok {
			fmt.Printf("selftest %s: %d runs x %d processes identical\n", p, n, len(procs))
		} else {
			fmt.Printf("selftest %s: NON-DETERMINISTIC\n", p)
			bad++
		}
	}
	if bad > 0 {
		os.Exit(2)
	}
}

func envOr(k, d string) string {
	if v := os.Getenv(k); v != "" {
		return v
	}
	return d
}

// countDistinct counts the union of the workers' sorted signature files by a
// streaming k-way merge (memory O(workers), so 10^7 runs are no problem).
func countDistinct(files []string) int {
	type src struct {
		r   *bufio.Reader
		f   *os.File
		cur uint64
		ok  bool
	}
	next := func(s *src) {
		var b [8]byte
		if _, err := io.ReadFull(s.r, b[:]); err != nil {
			s.ok = false
			return
		}
		s.cur = binary.LittleEndian.Uint64(b[:])
		s.ok = true
	}
	var srcs []*src
	for _, fn := range files {
		f, err := os.Open(fn)
		if err != nil {
			continue
		}
		s := &src{r: bufio.NewReaderSize(f, 1<<16), f: f}
		next(s)
		if s.ok {
			srcs = append(srcs, s)
		} else {
			f.Close()
		}
	}
	n := 0
	var last uint64
	first := true
	for len(srcs) > 0 {
		mi := 0
		for i := range srcs {
			if srcs[i].cur < srcs[mi].cur {
				mi = i
			}
		}
		v := srcs[mi].cur
		if first || v != last {
			n++
			last, first = v, false
		}
		next(srcs[mi])
		if !srcs[mi].ok {
			srcs[mi].f.Close()
			srcs = append(srcs[:mi], srcs[mi+1:]...)
		}
	}
	return n
}
