// driver orchestrates one check: it rebuilds the simulator against /repo's
// current working tree (with -tags verif), fans worker processes out over
// disjoint run-index ranges, merges what they found, consults the committed
// known-findings file, verifies every replay in a fresh process, writes the
// evidence file and sets the exit code (0 held / 1 violation / 2 harness trouble).
package main

import (
	"bufio"
	"encoding/json"
	"fmt"
	"os"
	"os/exec"
	"path/filepath"
	"runtime"
	"sort"
	"strconv"
	"strings"
	"sync"
	"time"

	"verif/sim/core"
)

const (
	verifDir = "/verif"
	simDir   = "/verif/sim"
	buildDir = "/verif/.build"
	goBin    = "go1.26.8"
)

var simTest = filepath.Join(buildDir, "sim.test")

func goEnv() []string {
	env := os.Environ()
	env = append(env, "GOFLAGS=-mod=mod", "GOPROXY=off", "GOSUMDB=off", "GOTOOLCHAIN=local", "CGO_ENABLED=0")
	return env
}

func harness(format string, args ...any) {
	fmt.Printf("HARNESS-TROUBLE: "+format+"\n", args...)
	os.Exit(2)
}

func build() {
	os.MkdirAll(buildDir, 0o755)
	// keep go.sum in step with /repo (the module under test is a replace target)
	if b, err := os.ReadFile("/repo/go.sum"); err == nil {
		if old, _ := os.ReadFile(filepath.Join(simDir, "go.sum")); !strings.Contains(string(old), firstLine(string(b))) {
			os.WriteFile(filepath.Join(simDir, "go.sum"), append(old, b...), 0o644)
		}
	}
	cmd := exec.Command(goBin, "test", "-c", "-tags", "verif", "-o", simTest, ".")
	cmd.Dir = simDir
	cmd.Env = goEnv()
	out, err := cmd.CombinedOutput()
	if err != nil {
		fmt.Print(string(out))
		harness("simulator does not build against /repo's working tree: %v", err)
	}
}

func firstLine(s string) string {
	if i := strings.IndexByte(s, '\n'); i >= 0 {
		return s[:i]
	}
	return s
}

func loadKnown() (map[string]core.KnownEntry, string) {
	path := filepath.Join(verifDir, "known_findings.json")
	m := map[string]core.KnownEntry{}
	b, err := os.ReadFile(path)
	if err != nil {
		return m, path
	}
	var kf core.KnownFile
	if err := json.Unmarshal(b, &kf); err != nil {
		harness("known_findings.json does not parse: %v", err)
	}
	for _, e := range kf.Findings {
		if e.Status == "known" {
			m[e.Key] = e
		}
	}
	return m, path
}

type propInfo struct {
	Level string
}

var levels = map[string]string{"C03": "fault_enumeration", "C04": "fault_enumeration"}

func levelOf(p string) string {
	if l, ok := levels[p]; ok {
		return l
	}
	return "exploration"
}

func runWorker(prop, tier string, seed uint64, w, W int, outPrefix, knownPath string, scale int) (int, string) {
	cmd := exec.Command("bash", "-c", "ulimit -v 5242880; exec "+simTest+" -test.run '^TestWorker$' -test.timeout 6h -test.count 1")
	cmd.Env = append(goEnv(),
		"VERIF_PROP="+prop, "VERIF_TIER="+tier, "VERIF_SEED="+strconv.FormatUint(seed, 10),
		"VERIF_WORKER="+strconv.Itoa(w), "VERIF_WORKERS="+strconv.Itoa(W), "VERIF_OUT="+outPrefix,
		"VERIF_KNOWN="+knownPath, "VERIF_SCALE_PCT="+strconv.Itoa(scale), "GOMAXPROCS=1")
	out, err := cmd.CombinedOutput()
	code := 0
	if err != nil {
		code = 1
		if ee, ok := err.(*exec.ExitError); ok {
			code = ee.ExitCode()
		}
	}
	return code, string(out)
}

type replayResult struct {
	reproduced bool
	signature  string
	hangLabel  string
	output     string
	exit       int
}

func runReplay(path, knownPath, isolate string, verbose bool) replayResult {
	cmd := exec.Command("bash", "-c", "ulimit -v 5242880; exec "+simTest+" -test.run '^TestReplay$' -test.timeout 10m -test.count 1")
	cmd.Env = append(goEnv(), "VERIF_REPLAY="+path, "VERIF_KNOWN="+knownPath, "GOMAXPROCS=1")
	if isolate != "" {
		cmd.Env = append(cmd.Env, "VERIF_ISOLATE="+isolate)
	}
	if verbose {
		cmd.Env = append(cmd.Env, "VERIF_VERBOSE=1")
	}
	out, err := cmd.CombinedOutput()
	res := replayResult{output: string(out)}
	if err != nil {
		res.exit = 1
		if ee, ok := err.(*exec.ExitError); ok {
			res.exit = ee.ExitCode()
		}
	}
	sc := bufio.NewScanner(strings.NewReader(string(out)))
	sc.Buffer(make([]byte, 1<<20), 1<<24)
	for sc.Scan() {
		l := sc.Text()
		if strings.HasPrefix(l, "REPLAY ") {
			for _, f := range strings.Fields(l) {
				switch {
				case strings.HasPrefix(f, "signature="):
					res.signature = strings.TrimPrefix(f, "signature=")
				case f == "reproduced=true":
					res.reproduced = true
				case strings.HasPrefix(f, "hang="):
					res.hangLabel = strings.TrimPrefix(f, "hang=")
				}
			}
		}
	}
	return res
}

func isLibraryLabel(l string) bool {
	return l != "" && l != "harness" && l != "sched"
}

func main() {
	if len(os.Args) < 2 {
		fmt.Println("usage: driver <property> <quick|thorough> | replay <file> | setup | selftest [props…]")
		os.Exit(2)
	}
	switch os.Args[1] {
	case "setup":
		build()
		fmt.Println("setup ok")
		return
	case "replay":
		if len(os.Args) < 3 {
			harness("replay needs a file")
		}
		build()
		_, kp := loadKnown()
		res := runReplay(os.Args[2], kp, "", os.Getenv("VERIF_VERBOSE") != "")
		fmt.Print(res.output)
		var rf core.ReplayFile
		b, _ := os.ReadFile(os.Args[2])
		json.Unmarshal(b, &rf)
		if strings.Contains(rf.Key, "|crash|") && res.exit != 0 && !strings.Contains(res.output, "HARNESS") {
			fmt.Println("the process died again while replaying this run")
			res.reproduced = true
		}
		if res.reproduced {
			fmt.Printf("VIOLATION property=%s replay=%s\n", rf.Property, os.Args[2])
			os.Exit(1)
		}
		fmt.Println("replay did not reproduce the finding on this tree")
		os.Exit(0)
	case "selftest":
		build()
		selftest(os.Args[2:])
		return
	}
	prop := os.Args[1]
	tier := "quick"
	if len(os.Args) > 2 {
		tier = os.Args[2]
	}
	if t := os.Getenv("VERIF_TIER"); t != "" && len(os.Args) <= 2 {
		tier = t
	}
	seed := uint64(1)
	if s := os.Getenv("VERIF_SEED"); s != "" {
		if v, err := strconv.ParseUint(s, 10, 64); err == nil {
			seed = v
		} else if v, err := strconv.ParseInt(s, 10, 64); err == nil {
			seed = uint64(v)
		}
	}
	scale := 100
	if s := os.Getenv("VERIF_SCALE_PCT"); s != "" {
		scale, _ = strconv.Atoi(s)
	}
	start := time.Now()
	build()
	known, knownPath := loadKnown()
	W := runtime.NumCPU()
	if W > 16 {
		W = 16
	}
	if s := os.Getenv("VERIF_WORKERS"); s != "" {
		W, _ = strconv.Atoi(s)
	}
	outDir := filepath.Join(buildDir, "out", prop)
	os.RemoveAll(outDir)
	os.MkdirAll(outDir, 0o755)

	type wres struct {
		code int
		out  string
	}
	results := make([]wres, W)
	var wg sync.WaitGroup
	for w := 0; w < W; w++ {
		wg.Add(1)
		go func(w int) {
			defer wg.Done()
			code, out := runWorker(prop, tier, seed, w, W, filepath.Join(outDir, fmt.Sprintf("w%02d", w)), knownPath, scale)
			results[w] = wres{code, out}
		}(w)
	}
	wg.Wait()

	stats := core.NewStats()
	sigs := map[string]struct{}{}
	var violations []core.ReplayFile
	seenKey := map[string]bool{}
	trouble := ""
	for w := 0; w < W; w++ {
		prefix := filepath.Join(outDir, fmt.Sprintf("w%02d", w))
		var wo core.WorkerOut
		b, err := os.ReadFile(prefix + ".json")
		if err == nil {
			json.Unmarshal(b, &wo)
		}
		if wo.Stats != nil {
			stats.Merge(wo.Stats)
		}
		if sb, err := os.ReadFile(prefix + ".sigs"); err == nil {
			for _, l := range strings.Split(string(sb), "\n") {
				if l != "" {
					sigs[l] = struct{}{}
				}
			}
		}
		for _, v := range wo.Violations {
			if !seenKey[v.Key] {
				seenKey[v.Key] = true
				violations = append(violations, v)
			}
		}
		switch {
		case results[w].code == 0 && wo.Done:
		case results[w].code == 3 && wo.Hang != nil:
			h := wo.Hang
			if !isLibraryLabel(h.Label) {
				trouble = fmt.Sprintf("worker %d made no progress for 20 s in harness code (label %q, run %s/%d)", w, h.Label, h.Config.Mode, h.Config.Index)
				continue
			}
			key := prop + "|hang|" + h.Label + "|no-progress-20s"
			if _, ok := known[key]; ok {
				stats.KnownSeen[key]++
				continue
			}
			if !seenKey[key] {
				seenKey[key] = true
				violations = append(violations, core.ReplayFile{Property: prop, Scenario: h.Config.Scenario, Config: h.Config, Seed: seed, RunSeed: h.Seed, Key: key,
					Detail: "library call " + h.Label + " made no progress for 20 s of real time (every legitimate call finishes in microseconds)"})
			}
		default:
			// crash (fatal error, out of memory under the 5 GiB address-space limit, killed)
			cur, _ := os.ReadFile(prefix + ".cur")
			f := strings.Fields(string(cur))
			if len(f) >= 4 {
				idx, _ := strconv.ParseUint(f[2], 10, 64)
				rs, _ := strconv.ParseUint(f[3], 10, 64)
				cfg := core.Config{Property: prop, Tier: tier, Mode: f[1], Index: idx}
				rf := core.ReplayFile{Property: prop, Config: cfg, Seed: seed, RunSeed: rs}
				// isolate: re-run that single run with the label of every library call persisted
				tmp := filepath.Join(outDir, fmt.Sprintf("isolate-%d.json", w))
				rf.Scenario = scenarioOf(prop)
				rf.Config.Scenario = rf.Scenario
				if len(f) >= 5 {
					rf.Config.Group, _ = strconv.ParseUint(f[4], 10, 64)
				}
				jb, _ := json.Marshal(rf)
				os.WriteFile(tmp, jb, 0o644)
				iso := filepath.Join(outDir, fmt.Sprintf("isolate-%d.cur", w))
				rr := runReplay(tmp, knownPath, iso, false)
				lb, _ := os.ReadFile(iso)
				label := strings.TrimSpace(string(lb))
				if rr.exit != 0 && isLibraryLabel(label) {
					key := prop + "|crash|" + label + "|process-died"
					if !seenKey[key] {
						seenKey[key] = true
						rf.Key = key
						rf.Detail = "the process died inside library call " + label + " (fatal error / out of memory under a 5 GiB address-space limit); tail of output: " + tail(rr.output, 400)
						violations = append(violations, rf)
					}
					continue
				}
			}
			trouble = fmt.Sprintf("worker %d exited with status %d; output tail: %s", w, results[w].code, tail(results[w].out, 1500))
		}
	}
	if trouble != "" && len(violations) == 0 {
		harness("%s", trouble)
	}

	// verify every replay in a fresh process before it is reported
	os.MkdirAll(filepath.Join(verifDir, "replays"), 0o755)
	var lines []string
	for i := range violations {
		v := &violations[i]
		path := filepath.Join(verifDir, "replays", fmt.Sprintf("%s-seed%d-%s-%d-%d.json", prop, seed, v.Config.Mode, v.Config.Index, i))
		jb, _ := json.MarshalIndent(v, "", " ")
		os.WriteFile(path, jb, 0o644)
		if strings.Contains(v.Key, "|hang|") || strings.Contains(v.Key, "|crash|") {
			lines = append(lines, fmt.Sprintf("VIOLATION property=%s replay=%s", prop, path))
			fmt.Printf("finding %s: %s\n", v.Key, v.Detail)
			continue
		}
		rr := runReplay(path, knownPath, "", false)
		if !rr.reproduced || (v.Signature != "" && rr.signature != v.Signature) {
			fmt.Print(tail(rr.output, 2000))
			harness("replay %s did not reproduce exactly in a fresh process (reproduced=%v, signature %s vs %s): non-deterministic harness, nothing is reported", path, rr.reproduced, rr.signature, v.Signature)
		}
		fmt.Printf("finding %s: %s\n  minimised tape %d -> %d entries (%d minimiser runs), replay verified in a fresh process\n", v.Key, v.Detail, v.OrigTape, len(v.Tape), v.MinRuns)
		lines = append(lines, fmt.Sprintf("VIOLATION property=%s replay=%s", prop, path))
	}

	for _, k := range core.SortedKeys(stats.KnownSeen) {
		fmt.Printf("KNOWN-FINDING: property=%s %s — %s (seen in %d runs)\n", prop, k, known[k].What, stats.KnownSeen[k])
	}
	wall := time.Since(start).Seconds()
	writeEvidence(prop, tier, seed, stats, len(sigs), len(violations), wall, W)
	if stats.Runs == 0 {
		stats.Runs = 1 // every worker died before reporting; the violation above stands, the evidence stays schema-valid
	}
	fmt.Printf("%s %s: %d simulated runs (%d non-trivial, %d distinct), %d events, faults fired %v, %.1fs\n", prop, tier, stats.Runs, stats.Nontrivial, len(sigs), stats.Events, compact(stats.Faults), wall)
	for _, l := range lines {
		fmt.Println(l)
	}
	if len(lines) > 0 {
		os.Exit(1)
	}
}

func compact(m map[string]uint64) string {
	var sb strings.Builder
	for i, k := range core.SortedKeys(m) {
		if i > 0 {
			sb.WriteByte(' ')
		}
		fmt.Fprintf(&sb, "%s=%d", k, m[k])
	}
	return sb.String()
}

func tail(s string, n int) string {
	if len(s) > n {
		return "…" + s[len(s)-n:]
	}
	return s
}

type scenInfo struct {
	Name string   `json:"name"`
	Real []string `json:"real"`
	Stub []string `json:"stub"`
	Rule string   `json:"rule"`
}

// scenario metadata is asked from the test binary so the driver does not link the library
func scenMeta(prop string) scenInfo {
	cmd := exec.Command(simTest, "-test.run", "^TestMeta$", "-test.count", "1")
	cmd.Env = append(goEnv(), "VERIF_META_PROP="+prop)
	out, _ := cmd.CombinedOutput()
	var si scenInfo
	for _, l := range strings.Split(string(out), "\n") {
		if strings.HasPrefix(l, "META ") {
			json.Unmarshal([]byte(strings.TrimPrefix(l, "META ")), &si)
		}
	}
	return si
}

func scenarioOf(prop string) string { return scenMeta(prop).Name }

func writeEvidence(prop, tier string, seed uint64, st *core.Stats, distinct, violations int, wall float64, workers int) {
	meta := scenMeta(prop)
	samples := []any{}
	for _, s := range st.Samples {
		samples = append(samples, s)
	}
	if len(samples) == 0 {
		samples = append(samples, "no non-trivial run in this batch")
	}
	exh := false
	var exModes []string
	for k, v := range st.Exhaustive {
		if v {
			exModes = append(exModes, k)
		}
	}
	sort.Strings(exModes)
	cov := map[string]any{
		"evaluations":            st.Runs,
		"distinct_nontrivial":    distinct,
		"rule":                   meta.Rule,
		"samples":                samples,
		"exhaustive":             exh,
		"exhaustive_submodes":    exModes,
		"nontrivial_runs":        st.Nontrivial,
		"events":                 st.Events,
		"scheduler_steps":        st.Steps,
		"tape_entries":           st.TapeEntries,
		"simulated_time_s":       float64(st.SimTimeNs) / 1e9,
		"runs_per_hour":          float64(st.Runs) / wall * 3600,
		"seeds":                  map[string]any{"VERIF_SEED": seed, "run_seeds": st.Runs, "derivation": "run seed = mix(VERIF_SEED, property/mode, run index)"},
		"faults_fired":           st.Faults,
		"probes":                 st.Probes,
		"distinct_interleavings": distinct,
		"real_components":        meta.Real,
		"stub_components":        meta.Stub,
		"known_findings_seen":    st.KnownSeen,
		"workers":                workers,
		"scenario":               meta.Name,
	}
	ev := map[string]any{
		"property_id": prop,
		"tier":        tier,
		"seed":        seed,
		"level":       levelOf(prop),
		"coverage":    cov,
		"assumptions": []string{
			"the simulator decides arrival patterns, faults, clock and task interleaving only at the seams listed in DESIGN.md section 5; between two yield sites a task runs atomically",
			"a clean batch is evidence over the sampled runs, not a proof",
			"reference models (spec tables, reference text decoders, crypto/md5) are trusted",
		},
		"wall_s":     wall,
		"violations": violations,
	}
	os.MkdirAll(filepath.Join(verifDir, "evidence"), 0o755)
	b, _ := json.MarshalIndent(ev, "", " ")
	os.WriteFile(filepath.Join(verifDir, "evidence", prop+".json"), b, 0o644)
}

// selftest: determinism of the simulator itself. Every property's first runs
// are executed in several fresh processes at different GOMAXPROCS; the
// signatures (hash of the complete event log) must be identical.
func selftest(props []string) {
	if len(props) == 0 {
		props = []string{"C01", "C02", "C03", "C04", "C06", "C07", "C09", "C10", "C11", "C12", "C13", "C14", "C15", "C16", "C18", "C20"}
	}
	_, kp := loadKnown()
	bad := 0
	for _, p := range props {
		var ref string
		procs := []string{"1", "4", "16", "1", "4", "16"}
		outs := make([]string, len(procs))
		var wg sync.WaitGroup
		for i, pr := range procs {
			wg.Add(1)
			go func(i int, pr string) {
				defer wg.Done()
				cmd := exec.Command(simTest, "-test.run", "^TestSignature$", "-test.count", "1", "-test.timeout", "30m")
				cmd.Env = append(goEnv(), "VERIF_SIG_PROP="+p, "VERIF_SIG_PROCS="+pr, "VERIF_KNOWN="+kp, "VERIF_SIG_RUNS="+envOr("VERIF_SIG_RUNS", "200"), "VERIF_SEED="+envOr("VERIF_SEED", "1"))
				out, _ := cmd.CombinedOutput()
				var keep []string
				for _, l := range strings.Split(string(out), "\n") {
					if strings.HasPrefix(l, "SIG ") {
						keep = append(keep, l)
					}
				}
				outs[i] = strings.Join(keep, "\n")
			}(i, pr)
		}
		wg.Wait()
		ref = outs[0]
		ok := ref != ""
		for i := range outs {
			if outs[i] != ref {
				ok = false
				a, b := strings.Split(ref, "\n"), strings.Split(outs[i], "\n")
				for j := 0; j < len(a) && j < len(b); j++ {
					if a[j] != b[j] {
						fmt.Printf("  %s: first divergence (process 0 vs %d, GOMAXPROCS %s):\n    %s\n    %s\n", p, i, procs[i], a[j], b[j])
						break
					}
				}
			}
		}
		n := len(strings.Split(ref, "\n"))
		if ok {
			fmt.Printf("selftest %s: %d runs x %d processes identical\n", p, n, len(procs))
		} else {
			fmt.Printf("selftest %s: NON-DETERMINISTIC\n", p)
			bad++
		}
	}
	if bad > 0 {
		os.Exit(2)
	}
}

func envOr(k, d string) string {
	if v := os.Getenv(k); v != "" {
		return v
	}
	return d
}
