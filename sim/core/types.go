package core

type KnownEntry struct {
	Status   string `json:"status"` // "known" | "fixed"
	Property string `json:"property"`
	Key      string `json:"key"`
	What     string `json:"what"`
	Commit   string `json:"commit,omitempty"`
}

type KnownFile struct {
	Findings []KnownEntry `json:"findings"`
}

type ReplayFile struct {
	Property  string   `json:"property"`
	Scenario  string   `json:"scenario"`
	Config    Config   `json:"config"`
	Seed      uint64   `json:"seed"`
	RunSeed   uint64   `json:"run_seed"`
	Key       string   `json:"key"`
	Detail    string   `json:"detail"`
	Tape      []uint64 `json:"tape"`
	Signature string   `json:"signature"`
	Trace     []string `json:"trace"`
	MinRuns   int      `json:"minimiser_runs"`
	// History replay: when the finding depends on library state left behind by EARLIER runs of the
	// same worker process (package-level caches and the like), the replay re-executes that worker's
	// whole run sequence up to the failing run.
	History  *HistoryInfo `json:"history,omitempty"`
	OrigTape int          `json:"original_tape_len"`
}

type WorkerOut struct {
	Stats      *Stats       `json:"stats"`
	Violations []ReplayFile `json:"violations"`
	Hang       *HangInfo    `json:"hang,omitempty"`
	WallS      float64      `json:"wall_s"`
	Done       bool         `json:"done"`
}

type HangInfo struct {
	Label  string `json:"label"`
	Config Config `json:"config"`
	Seed   uint64 `json:"seed"`
}

type HistoryInfo struct {
	Worker   uint64 `json:"worker"`
	Workers  uint64 `json:"workers"`
	ScalePct uint64 `json:"scale_pct"`
}
