package core

import (
	"crypto/sha256"
	"encoding/hex"
	"fmt"
	"hash"
	"runtime"
	"runtime/metrics"
	"sort"
	"strings"
	"sync"
	"sync/atomic"
	"time"
)

// Finding is one failed oracle. Key is stable: <property>|<oracle>|<site>|<discriminator>.
type Finding struct {
	Property string `json:"property"`
	Key      string `json:"key"`
	Detail   string `json:"detail"`
}

// Config is the per-run configuration every scenario receives.
type Config struct {
	Property string            `json:"property"`
	Scenario string            `json:"scenario"`
	Tier     string            `json:"tier"`
	Mode     string            `json:"mode,omitempty"`  // sub-mode of a scenario (e.g. "single-cut")
	Index    uint64            `json:"index"`           // run index (also the enumeration index of exhaustive sub-modes)
	Group    uint64            `json:"group,omitempty"` // exhaustive sub-modes: runs Index/Group share one tape seed, Index%Group enumerates
	Params   map[string]string `json:"params,omitempty"`
	Arch     string            `json:"arch,omitempty"` // GOARCH of the binary that recorded a replay file, when it is not amd64
}

// Run is the context of one simulated execution.
type Run struct {
	C   *Chooser
	Cfg Config

	mu       sync.Mutex
	h        hash.Hash
	trace    []string
	traceCap int
	nEvents  uint64

	Faults   map[string]int
	Probes   map[string]int
	Findings []Finding
	seenKeys map[string]bool

	SimTime time.Duration // simulated time covered
	Steps   int           // scheduler / event-loop steps
	Known   map[string]bool
	Aborted bool
	// Quiet runs record nothing and take no lock: used by the free-running race-detector leg, where
	// the harness must not add happens-before edges between the tasks' library calls.
	Quiet    bool
	curLabel atomic.Value
}

func NewRun(c *Chooser, cfg Config, known map[string]bool) *Run {
	return &Run{C: c, Cfg: cfg, h: sha256.New(), traceCap: 400,
		Faults: map[string]int{}, Probes: map[string]int{}, seenKeys: map[string]bool{}, Known: known}
}

// Event appends one line to the run's event log. The log never draws from the
// tape and never reads a clock, so logging cannot perturb the schedule.
func (r *Run) Event(format string, args ...any) {
	if r.Quiet {
		return
	}
	s := fmt.Sprintf(format, args...)
	r.mu.Lock()
	r.nEvents++
	fmt.Fprintf(r.h, "%d:%s\n", r.nEvents, s)
	if len(r.trace) < r.traceCap {
		if len(s) > 300 {
			s = s[:300] + "…"
		}
		r.trace = append(r.trace, fmt.Sprintf("#%d %s", r.nEvents, s))
	}
	r.mu.Unlock()
}

func (r *Run) Fault(kind string) {
	if r.Quiet {
		return
	}
	r.mu.Lock()
	r.Faults[kind]++
	r.mu.Unlock()
	r.Event("fault %s", kind)
}

func (r *Run) Probe(name string) {
	if r.Quiet {
		return
	}
	r.mu.Lock()
	r.Probes[name]++
	r.mu.Unlock()
}

// Signature is the hash of the whole event log of the run.
func (r *Run) Signature() string {
	r.mu.Lock()
	defer r.mu.Unlock()
	return hex.EncodeToString(r.h.Sum(nil))
}

// Sig64 is the first 64 bits of the signature.
func (r *Run) Sig64() uint64 {
	r.mu.Lock()
	defer r.mu.Unlock()
	b := r.h.Sum(nil)
	var v uint64
	for i := 0; i < 8; i++ {
		v = v<<8 | uint64(b[i])
	}
	return v
}

func (r *Run) Trace() []string {
	r.mu.Lock()
	defer r.mu.Unlock()
	return append([]string(nil), r.trace...)
}

func (r *Run) NEvents() uint64 { return r.nEvents }

// Fail records a failed oracle. prop may differ from the property being
// checked (shared scenarios); the worker filters.
func (r *Run) Fail(prop, oracle, site, disc, format string, args ...any) {
	key := prop + "|" + oracle + "|" + site + "|" + disc
	detail := fmt.Sprintf(format, args...)
	if len(detail) > 2000 {
		detail = detail[:2000] + "…"
	}
	r.mu.Lock()
	if !r.seenKeys[key] {
		r.seenKeys[key] = true
		r.Findings = append(r.Findings, Finding{Property: prop, Key: key, Detail: detail})
	}
	r.mu.Unlock()
	r.Event("FINDING %s", key)
}

// IsKnown reports whether the key is listed as a known finding; scenarios use
// it for the narrow relaxation (skip only the sub-checks that depend on the
// failed value).
func (r *Run) IsKnown(prop, oracle, site, disc string) bool {
	return r.Known[prop+"|"+oracle+"|"+site+"|"+disc]
}

// ---------------------------------------------------------------------------
// Library calls: panic capture, heartbeat, allocation accounting.

var heartbeat atomic.Uint64
var heartLabel atomic.Value

// Beat is bumped before every library call and every scheduler step; the
// watchdog (real time, outside any bubble) only looks at it.
func Beat(label string) {
	heartbeat.Add(1)
	heartLabel.Store(label)
	if BeatSink != nil {
		BeatSink(label)
	}
}

// BeatSink, when set (isolate mode only), persists the label of the library
// call that is about to run, so a crash of the process can be attributed.
var BeatSink func(label string)

func HeartState() (uint64, string) {
	l, _ := heartLabel.Load().(string)
	return heartbeat.Load(), l
}

// curLib is the label of the library call the running task is inside ("" in harness code). Under the cooperative
// scheduler one task runs at a time; a task parking at a yield site takes its label with it (sched.go). The scheduler
// publishes it as the heartbeat label while it waits for the bubble to become quiescent, so that a library call that
// blocks for good on a lock of its own is attributed to that call and not to the scheduler.
var curLib atomic.Value

func CurLib() string {
	l, _ := curLib.Load().(string)
	return l
}

func SetCurLib(l string) { curLib.Store(l) }

// PanicInfo describes a recovered panic of a library call.
type PanicInfo struct {
	Value string
	Frame string // innermost frame inside the module under test
	Kind  string // coarse class of the panic value
}

const modulePath = "github.com/hujm2023/go-sms-protocol"

func innermostModuleFrame() string {
	pcs := make([]uintptr, 64)
	n := runtime.Callers(3, pcs)
	frames := runtime.CallersFrames(pcs[:n])
	for {
		f, more := frames.Next()
		if strings.Contains(f.Function, modulePath) && !strings.Contains(f.Function, "/verifhook") {
			fn := f.Function[strings.Index(f.Function, modulePath)+len(modulePath):]
			fn = strings.TrimPrefix(fn, "/")
			if fn == "" {
				fn = "protocol"
			}
			if strings.HasPrefix(fn, ".") {
				fn = "protocol" + fn
			}
			// strip closure suffixes
			if i := strings.Index(fn, ".func"); i > 0 {
				fn = fn[:i]
			}
			return fn
		}
		if !more {
			break
		}
	}
	return "unknown"
}

func classify(v any) string {
	s := fmt.Sprint(v)
	switch {
	case strings.Contains(s, "slice bounds out of range"):
		return "slice-bounds"
	case strings.Contains(s, "index out of range"):
		return "index-range"
	case strings.Contains(s, "nil map"):
		return "nil-map"
	case strings.Contains(s, "nil pointer"):
		return "nil-deref"
	case strings.Contains(s, "makeslice"), strings.Contains(s, "out of memory"):
		return "makeslice"
	case strings.Contains(s, "interface conversion"):
		return "type-assert"
	case strings.Contains(s, "divide by zero"):
		return "div-zero"
	}
	return "other"
}

// Call runs one library call under recover. It returns nil when the call
// returned normally.
func (r *Run) Call(label string, f func()) (p *PanicInfo) {
	if r.Quiet {
		defer func() {
			if v := recover(); v != nil {
				p = &PanicInfo{Value: fmt.Sprint(v), Frame: innermostModuleFrame(), Kind: classify(v)}
			}
		}()
		f()
		return nil
	}
	Beat(label)
	prev := CurLib()
	curLib.Store(label)
	defer func() {
		curLib.Store(prev)
		if v := recover(); v != nil {
			frame := innermostModuleFrame()
			if frame == "unknown" {
				// no frame of the library on the panicking stack: this is a defect of the harness, never a finding
				panic(fmt.Sprintf("HARNESS PANIC in %s: %v", label, v))
			}
			p = &PanicInfo{Value: fmt.Sprint(v), Frame: frame, Kind: classify(v)}
		}
		Beat("harness")
	}()
	f()
	return nil
}

var allocSample = []metrics.Sample{{Name: "/gc/heap/allocs:bytes"}}
var allocMu sync.Mutex

// CallAlloc is Call plus the number of heap bytes allocated during the call.
// Only meaningful while every other task is parked.
func (r *Run) CallAlloc(label string, f func()) (p *PanicInfo, allocated uint64) {
	allocMu.Lock()
	defer allocMu.Unlock()
	metrics.Read(allocSample)
	before := allocSample[0].Value.Uint64()
	p = r.Call(label, f)
	metrics.Read(allocSample)
	return p, allocSample[0].Value.Uint64() - before
}

// ---------------------------------------------------------------------------
// Aggregated statistics of a batch of runs (one worker), merged by the driver.

type Stats struct {
	Runs        uint64            `json:"runs"`
	Nontrivial  uint64            `json:"nontrivial"`
	Events      uint64            `json:"events"`
	Steps       uint64            `json:"steps"`
	SimTimeNs   int64             `json:"sim_time_ns"`
	Faults      map[string]uint64 `json:"faults"`
	Probes      map[string]uint64 `json:"probes"`
	KnownSeen   map[string]uint64 `json:"known_seen"`
	Samples     []Sample          `json:"samples"`
	Exhaustive  map[string]bool   `json:"exhaustive,omitempty"`
	TapeEntries uint64            `json:"tape_entries"`
}

type Sample struct {
	Run   uint64   `json:"run"`
	Seed  uint64   `json:"seed"`
	Mode  string   `json:"mode,omitempty"`
	Trace []string `json:"trace"`
}

func NewStats() *Stats {
	return &Stats{Faults: map[string]uint64{}, Probes: map[string]uint64{}, KnownSeen: map[string]uint64{}, Exhaustive: map[string]bool{}}
}

func (s *Stats) Add(r *Run) (nontrivial bool) {
	s.Runs++
	s.Events += r.nEvents
	s.Steps += uint64(r.Steps)
	s.SimTimeNs += int64(r.SimTime)
	s.TapeEntries += uint64(len(r.C.Tape))
	for k, v := range r.Faults {
		s.Faults[k] += uint64(v)
		if v > 0 {
			nontrivial = true
		}
	}
	for k, v := range r.Probes {
		s.Probes[k] += uint64(v)
		if v > 0 {
			nontrivial = true
		}
	}
	if nontrivial {
		s.Nontrivial++
	}
	return
}

func (s *Stats) Merge(o *Stats) {
	s.Runs += o.Runs
	s.Nontrivial += o.Nontrivial
	s.Events += o.Events
	s.Steps += o.Steps
	s.SimTimeNs += o.SimTimeNs
	s.TapeEntries += o.TapeEntries
	for k, v := range o.Faults {
		s.Faults[k] += v
	}
	for k, v := range o.Probes {
		s.Probes[k] += v
	}
	for k, v := range o.KnownSeen {
		s.KnownSeen[k] += v
	}
	for k, v := range o.Exhaustive {
		if v {
			s.Exhaustive[k] = true
		}
	}
	if len(s.Samples) < 6 {
		s.Samples = append(s.Samples, o.Samples...)
		if len(s.Samples) > 6 {
			s.Samples = s.Samples[:6]
		}
	}
}

func SortedKeys[V any](m map[string]V) []string {
	ks := make([]string, 0, len(m))
	for k := range m {
		ks = append(ks, k)
	}
	sort.Strings(ks)
	return ks
}

// ---------------------------------------------------------------------------
// Garbage collection as an injected event.

type gcSentinel struct {
	flag *atomic.Bool
	pad  [48]byte
}

// ForceGC runs a collection now and waits until the finalizer goroutine has worked through what the collection
// found (a sentinel allocated just before is finalized last of all objects that died earlier). It uses no channel,
// timer or lock, so it can be called inside a synctest bubble. The moment is the caller's (a tape or run-index
// decision), which makes "a collection between these two calls" a replayable fault.
func ForceGC() {
	var flag atomic.Bool
	func() {
		s := &gcSentinel{flag: &flag}
		runtime.SetFinalizer(s, func(x *gcSentinel) { x.flag.Store(true) })
	}()
	runtime.GC()
	for i := 0; i < 20000 && !flag.Load(); i++ {
		runtime.Gosched()
	}
	// objects a finalizer made reachable again are collected by the next cycle; sync.Pool victims die in two
	runtime.GC()
}
