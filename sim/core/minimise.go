package core

import "time"

// Minimise shrinks a tape by delta debugging. try(tape) must execute a fresh
// run under the replay chooser and report whether a finding with the wanted
// key occurred. Because 0 is the benign choice everywhere and an exhausted
// tape yields 0, removing a suffix, removing chunks and zeroing entries all
// produce valid executions.
func Minimise(tape []uint64, try func([]uint64) bool, maxRuns int, maxTime time.Duration) ([]uint64, int) {
	start := time.Now()
	runs := 0
	ok := func(t []uint64) bool {
		if runs >= maxRuns || time.Since(start) > maxTime {
			return false
		}
		runs++
		return try(t)
	}
	// once the budget is used up nothing more is tried - and no candidate is built either (copying a tape of a few
	// hundred thousand entries once per entry is what "never returns" looks like)
	spent := func() bool { return runs >= maxRuns || time.Since(start) > maxTime }
	cur := append([]uint64(nil), tape...)
	// 0. drop trailing zeros for free
	trim := func(t []uint64) []uint64 {
		for len(t) > 0 && t[len(t)-1] == 0 {
			t = t[:len(t)-1]
		}
		return t
	}
	// 1. truncate: binary search the shortest prefix that still fails
	lo, hi := 0, len(cur)
	for lo < hi && !spent() {
		mid := (lo + hi) / 2
		if ok(cur[:mid]) {
			hi = mid
		} else {
			lo = mid + 1
		}
	}
	if hi < len(cur) && ok(cur[:hi]) {
		cur = append([]uint64(nil), cur[:hi]...)
	}
	cur = trim(cur)
	// 2. zero chunks of halving size (keeps alignment of later draws)
	for size := len(cur) / 2; size >= 1; size /= 2 {
		for i := 0; i+size <= len(cur) && !spent(); i += size {
			allZero := true
			for _, v := range cur[i : i+size] {
				if v != 0 {
					allZero = false
					break
				}
			}
			if allZero {
				continue
			}
			cand := append([]uint64(nil), cur...)
			for j := i; j < i+size; j++ {
				cand[j] = 0
			}
			if ok(cand) {
				cur = cand
			}
		}
		if spent() {
			break
		}
	}
	cur = trim(cur)
	// 3. remove chunks (shifts later draws; often still fails)
	for size := len(cur) / 2; size >= 1; size /= 2 {
		for i := 0; i+size <= len(cur) && !spent(); {
			cand := append(append([]uint64(nil), cur[:i]...), cur[i+size:]...)
			if ok(cand) {
				cur = cand
			} else {
				i += size
			}
		}
		if spent() {
			break
		}
	}
	cur = trim(cur)
	// 4. shrink single values: try 0, then 1, then halves
	for i := range cur {
		if spent() {
			break
		}
		if cur[i] == 0 {
			continue
		}
		for _, v := range []uint64{0, 1, cur[i] / 2, cur[i] - 1} {
			if v >= cur[i] {
				continue
			}
			cand := append([]uint64(nil), cur...)
			cand[i] = v
			if ok(cand) {
				cur = cand
				if v == 0 {
					break
				}
			}
		}
		if spent() {
			break
		}
	}
	return trim(cur), runs
}
