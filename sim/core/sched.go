package core

import (
	"bytes"
	"fmt"
	"os"
	"runtime"
	"sort"
	"strconv"
	"strings"
	"sync"
	"testing/synctest"
	"time"
)

// Sched is the seeded cooperative scheduler. It must be created and run on
// the root goroutine of a testing/synctest bubble. Tasks are real goroutines;
// exactly one of them is released at a time, at yield sites, and the tape
// decides which. Goroutines the library starts itself (errgroup workers of the
// batch encoder) are adopted when they reach their first yield hook.
type Sched struct {
	r        *Run
	mu       sync.Mutex
	tasks    []*Task
	byGid    map[uint64]*Task
	pending  []*Task // adopted, not yet indexed
	SwitchP  [2]int  // probability (num,den) of considering a switch at a yield
	abort    chan struct{}
	aborted  bool
	nSwitch  int
	lastTask *Task
	rootGid  uint64
	StepHook func(step int) // called by the scheduler goroutine before every step, all tasks parked or blocked
	held     map[uint64]int // per goroutine: locks of the library currently held (instrumented build)
	free     bool           // VERIF_FREERUN: no cooperative scheduling, tasks are plain goroutines (used to tell a hang of the library from one the simulator induced)
	freeWG   sync.WaitGroup
	soft     int // inserted yield sites passed in this run
	GCAtStep int // scheduler step before which a garbage collection is forced (-1: none)
}

type Task struct {
	Name    string
	site    string
	key     []int
	resume  chan struct{}
	parked  bool
	done    bool
	started bool
	adopted bool
	fn      func()
	gid     uint64
	lib     string // label of the library call the task was inside when it parked
}

func NewSched(r *Run) *Sched {
	return &Sched{r: r, byGid: map[uint64]*Task{}, abort: make(chan struct{}), SwitchP: [2]int{1, 1}, rootGid: curGid(), GCAtStep: -1, held: map[uint64]int{}, free: os.Getenv("VERIF_FREERUN") != ""}
}

func curGid() uint64 {
	var buf [64]byte
	b := buf[:runtime.Stack(buf[:], false)]
	b = bytes.TrimPrefix(b, []byte("goroutine "))
	i := bytes.IndexByte(b, ' ')
	if i < 0 {
		return 0
	}
	n, _ := strconv.ParseUint(string(b[:i]), 10, 64)
	return n
}

// Go registers a task. It starts parked; the scheduler releases it.
func (s *Sched) Go(name string, fn func()) *Task {
	if s.free {
		s.freeWG.Add(1)
		go func() {
			defer s.freeWG.Done()
			fn()
		}()
		return &Task{Name: name}
	}
	t := &Task{Name: name, resume: make(chan struct{}), fn: fn, parked: true, site: "start"}
	s.mu.Lock()
	s.tasks = append(s.tasks, t)
	s.mu.Unlock()
	go func() {
		select {
		case <-t.resume:
		case <-s.abort:
			return
		}
		s.mu.Lock()
		t.gid = curGid()
		s.byGid[t.gid] = t
		s.mu.Unlock()
		defer func() {
			s.mu.Lock()
			t.done = true
			t.parked = false
			delete(s.byGid, t.gid)
			s.mu.Unlock()
		}()
		fn()
	}()
	return t
}

// Yield is installed as verifhook.YieldFn and is also called by harness code.
// The calling goroutine parks until the scheduler releases it again.
func (s *Sched) Yield(site string, key ...int) {
	if s.free {
		runtime.Gosched()
		return
	}
	gid := curGid()
	if gid == s.rootGid {
		return // the scheduler's own goroutine (oracle code calling the library) never parks
	}
	s.mu.Lock()
	if s.aborted {
		s.mu.Unlock()
		return
	}
	// yield points inserted by cmd/instrument around the library's own locks: a task is never switched away from
	// while it holds a lock (the next task to want that lock would block for real, outside the scheduler's view)
	switch site {
	case "sync.enter":
		s.held[gid]++
		s.mu.Unlock()
		return
	case "sync.exit":
		if s.held[gid] > 0 {
			s.held[gid]--
		}
		if s.held[gid] == 0 {
			delete(s.held, gid)
		}
		s.mu.Unlock()
		return
	}
	if s.held[gid] > 0 {
		s.mu.Unlock()
		return
	}
	if strings.HasPrefix(site, "sync.") || strings.HasPrefix(site, "chan.") || strings.HasPrefix(site, "go.") {
		// inserted sites in a hot loop (a lock or an atomic per character) would multiply the steps of a run by
		// thousands: after 20000 of them in one run the rest are passed without a switch
		s.soft++
		if s.soft > 20000 {
			s.mu.Unlock()
			return
		}
	}
	t := s.byGid[gid]
	if t == nil && (strings.HasPrefix(site, "sync.") || strings.HasPrefix(site, "chan.") || strings.HasPrefix(site, "go.")) {
		// an inserted yield point reached by a goroutine the scheduler has not met: its key (a line number) does not
		// tell siblings apart, so adopting it here would make the order of adoption depend on the Go runtime. Such a
		// goroutine is adopted at the first committed hook site it reaches (whose key identifies it) or runs free.
		s.mu.Unlock()
		return
	}
	if t == nil {
		// a goroutine the library started: adopt it
		t = &Task{Name: "adopted", resume: make(chan struct{}), adopted: true, started: true, gid: gid}
		s.byGid[gid] = t
		s.pending = append(s.pending, t)
	}
	t.site = site
	t.key = append(t.key[:0], key...)
	t.parked = true
	t.lib = CurLib()
	if !t.adopted {
		// a goroutine the library started runs inside its starter's call and leaves the label to its siblings
		SetCurLib("")
	}
	s.mu.Unlock()
	select {
	case <-t.resume:
		SetCurLib(t.lib)
		if t.lib != "" {
			Beat(t.lib)
		}
	case <-s.abort:
		runtime.Goexit()
	}
}

// adoptedDone is called by the deferred part of an adopted goroutine — there
// is none (we do not own its code), so adopted tasks are considered done when
// they are neither parked nor known to be running. See Run.

func lessKey(a, b *Task) bool {
	if a.site != b.site {
		return a.site < b.site
	}
	for i := 0; i < len(a.key) && i < len(b.key); i++ {
		if a.key[i] != b.key[i] {
			return a.key[i] < b.key[i]
		}
	}
	return len(a.key) < len(b.key)
}

// Run drives the tasks until all registered tasks are done. It returns an
// error text when tasks remain that can never run again (lost wake-up).
// tick, if non-nil, is called after every step (invariant checks).
func (s *Sched) Run(maxSteps int, tick func()) string {
	if s.free {
		s.freeWG.Wait()
		return ""
	}
	for step := 0; ; step++ {
		if l := CurLib(); l != "" {
			// the task that runs now is inside a library call: should the bubble never become quiescent, that call is
			// what made no progress
			Beat(l)
		}
		synctest.Wait()
		Beat("sched")
		if s.StepHook != nil {
			s.StepHook(step)
		}
		if step == s.GCAtStep {
			// every task is parked or blocked: a collection (finalizers included) at this very point of the history
			ForceGC()
			s.r.Fault("gc_at_step")
		}
		s.mu.Lock()
		if len(s.pending) > 0 {
			// index newly adopted goroutines in a replayable order
			sort.SliceStable(s.pending, func(i, j int) bool { return lessKey(s.pending[i], s.pending[j]) })
			for i, t := range s.pending {
				t.Name = fmt.Sprintf("adopted:%s%v#%d", t.site, t.key, i)
			}
			s.tasks = append(s.tasks, s.pending...)
			s.pending = nil
		}
		var runnable []*Task
		alive := 0
		for _, t := range s.tasks {
			if t.done {
				continue
			}
			if t.adopted && !t.parked {
				// an adopted goroutine that is not parked after the bubble became
				// quiescent has returned (its code is not ours to instrument)
				t.done = true
				delete(s.byGid, t.gid)
				continue
			}
			alive++
			if t.parked {
				runnable = append(runnable, t)
			}
		}
		s.mu.Unlock()
		if alive == 0 {
			return ""
		}
		if len(runnable) == 0 {
			s.Abort()
			return fmt.Sprintf("deadlock: %d task(s) alive, none runnable", alive)
		}
		if step >= maxSteps {
			s.Abort()
			return fmt.Sprintf("step budget %d exhausted", maxSteps)
		}
		// THE scheduling decision. Option 0 = keep running the task that ran last
		// (benign: no preemption) when it is still runnable.
		k := 0
		if len(runnable) > 1 {
			if s.lastTask != nil {
				for i, t := range runnable {
					if t == s.lastTask {
						runnable[0], runnable[i] = runnable[i], runnable[0]
						break
					}
				}
			}
			if s.r.C.Prob(s.SwitchP[0], s.SwitchP[1]) {
				k = s.r.C.Intn(len(runnable))
			}
		}
		t := runnable[k]
		if t != s.lastTask && s.lastTask != nil {
			s.nSwitch++
			s.r.Fault("preempt")
		}
		s.lastTask = t
		s.r.Steps++
		s.r.Event("sched run %s at %s%v", t.Name, t.site, t.key)
		s.mu.Lock()
		t.parked = false
		t.started = true
		s.mu.Unlock()
		t.resume <- struct{}{}
		if tick != nil {
			synctest.Wait()
			tick()
		}
	}
}

// Advance moves the simulated clock; only the scheduler goroutine sleeps, so
// simulated time is a pure function of the tape.
func (s *Sched) Advance(d time.Duration) {
	if d > 0 {
		time.Sleep(d)
		s.r.SimTime += d
	}
}

// Abort releases every parked goroutine (they exit).
func (s *Sched) Abort() {
	s.mu.Lock()
	if !s.aborted {
		s.aborted = true
		close(s.abort)
	}
	s.mu.Unlock()
}

func (s *Sched) Switches() int { return s.nSwitch }
