// Package core holds the simulator kernel: the choice tape (the single source
// of every decision of a run), the run context with its event log, fault and
// probe counters, findings, the cooperative scheduler and the minimiser.
package core

import (
	"sync"
)

// splitmix64 / xorshift style generator; small, fast and fully specified here
// so that a seed means the same execution on every machine and Go version.
type rng struct{ s uint64 }

func (r *rng) next() uint64 {
	r.s += 0x9e3779b97f4a7c15
	z := r.s
	z = (z ^ (z >> 30)) * 0xbf58476d1ce4e5b9
	z = (z ^ (z >> 27)) * 0x94d049bb133111eb
	return z ^ (z >> 31)
}

// Mix derives the seed of one run from the user seed, a name and the run index.
// A run depends only on these three values, never on which worker executes it.
func Mix(seed uint64, name string, run uint64) uint64 {
	h := seed*0x9e3779b97f4a7c15 + 0x1234567
	for i := 0; i < len(name); i++ {
		h = (h ^ uint64(name[i])) * 0x100000001b3
	}
	h ^= run * 0xd6e8feb86659fd93
	r := rng{h}
	r.next()
	return r.next()
}

// Chooser is the choice tape. Every decision of a run is one draw. In seed
// mode the draw comes from the PRNG and is recorded; in replay mode it comes
// from the recorded tape and, once the tape is exhausted, is 0. By convention
// 0 is always the most benign option (no fault, smallest size, keep running
// the same task), which is what makes generic tape minimisation meaningful.
type Chooser struct {
	mu      sync.Mutex
	r       rng
	replay  bool
	in      []uint64
	pos     int
	Tape    []uint64
	MaxTape int // safety valve: a run that draws more than this is aborted by the scenario
}

func NewSeedChooser(seed uint64) *Chooser {
	return &Chooser{r: rng{seed}, MaxTape: 1 << 22}
}

func NewReplayChooser(tape []uint64) *Chooser {
	return &Chooser{replay: true, in: tape, MaxTape: 1 << 22}
}

func (c *Chooser) raw(n uint64) uint64 {
	c.mu.Lock()
	defer c.mu.Unlock()
	var v uint64
	if c.replay {
		if c.pos < len(c.in) {
			v = c.in[c.pos]
		}
		c.pos++
		if n > 0 && v >= n {
			v = v % n
		}
	} else {
		v = c.r.next()
		if n > 0 {
			v %= n
		}
	}
	if len(c.Tape) < c.MaxTape {
		c.Tape = append(c.Tape, v)
	}
	return v
}

// Exhausted reports that the run drew more choices than MaxTape.
func (c *Chooser) Exhausted() bool { return len(c.Tape) >= c.MaxTape }

// Intn returns a value in [0,n). n<=1 draws nothing and returns 0.
func (c *Chooser) Intn(n int) int {
	if n <= 1 {
		return 0
	}
	return int(c.raw(uint64(n)))
}

// Uint64 draws a full 64-bit value (0 = benign).
func (c *Chooser) Uint64() uint64 { return c.raw(0) }

// Bool draws a coin; false is benign.
func (c *Chooser) Bool() bool { return c.Intn(2) == 1 }

// Prob is true with probability num/den; false is benign (value 0 => false).
func (c *Chooser) Prob(num, den int) bool {
	if num <= 0 {
		return false
	}
	if num >= den {
		// still draw, so that the tape layout does not depend on the rates
		c.Intn(den)
		return true
	}
	v := c.Intn(den)
	return v >= den-num
}

// Range returns a value in [lo,hi]; lo is benign.
func (c *Chooser) Range(lo, hi int) int {
	if hi <= lo {
		return lo
	}
	return lo + c.Intn(hi-lo+1)
}

// Pick chooses an index by weight; index 0 should be the benign alternative.
func (c *Chooser) Pick(weights ...int) int {
	total := 0
	for _, w := range weights {
		total += w
	}
	if total <= 0 {
		return 0
	}
	v := c.Intn(total)
	for i, w := range weights {
		if v < w {
			return i
		}
		v -= w
	}
	return len(weights) - 1
}

// Size draws a length in [0,max] biased to small values and to the given
// boundary values (each boundary b also yields b-1 and b+1).
func (c *Chooser) Size(max int, boundaries ...int) int {
	if max <= 0 {
		return 0
	}
	switch c.Pick(4, 3, 2, 1) {
	case 0:
		m := max
		if m > 8 {
			m = 8
		}
		return c.Intn(m + 1)
	case 1:
		if len(boundaries) == 0 {
			return c.Intn(max + 1)
		}
		b := boundaries[c.Intn(len(boundaries))] + c.Intn(3) - 1
		if b < 0 {
			b = 0
		}
		if b > max {
			b = max
		}
		return b
	case 2:
		return c.Intn(max + 1)
	default:
		return max - c.Intn(min(max, 3)+1)
	}
}

// Blob returns n octets expanded from ONE tape entry (a sub-seed), so that
// large bodies cost a single draw. Sub-seed 0 expands to a printable filler.
// alphabet selects the value space: "any" (all octets), "nonul" (1..255),
// "print" (0x20..0x7e without space problems), "digits".
func (c *Chooser) Blob(n int, alphabet string) []byte {
	out := make([]byte, n)
	if n == 0 {
		return out
	}
	sub := c.Uint64()
	if sub == 0 {
		for i := range out {
			switch alphabet {
			case "digits":
				out[i] = '0' + byte(i%10)
			default:
				out[i] = 'a' + byte(i%26)
			}
		}
		return out
	}
	r := rng{sub}
	// a few structured modes besides uniform noise
	mode := r.next() % 8
	for i := range out {
		var b byte
		v := r.next()
		switch alphabet {
		case "digits":
			b = '0' + byte(v%10)
		case "print":
			b = 0x21 + byte(v%0x5e)
		case "nonul":
			switch mode {
			case 0:
				b = 0xff
			case 1:
				b = 0x01
			case 2:
				b = 0x80 | byte(v)
			case 3:
				b = 0x80 | byte(v)&0x3f // only UTF-8 continuation octets: no rune ever starts
			case 4:
				b = byte(sub >> 40) // one octet, repeated
			default:
				b = byte(v)
			}
			if b == 0 {
				b = byte(v>>8) | 1
			}
		default: // any
			switch mode {
			case 0:
				b = 0
			case 1:
				b = 0xff
			case 2:
				if v%4 == 0 {
					b = 0
				} else {
					b = byte(v >> 8)
				}
			case 3:
				b = 0x80 | byte(v)&0x3f // only UTF-8 continuation octets: no rune ever starts
			case 4:
				b = byte(sub >> 40) // one octet, repeated
			default:
				b = byte(v)
			}
		}
		out[i] = b
	}
	return out
}
