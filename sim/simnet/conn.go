// Package simnet is the simulated transport: SimConn implements the library's
// codec.ConnReader seam exactly as its doc comment states, fed by a Link that
// the run's choice tape cuts, stalls, truncates and fails.
package simnet

import (
	"errors"
	"io"
	"os"
)

// Discipline selects how the receive buffer is managed. All of them honour
// the documented contract "the bytes [returned by Peek] stop being valid at
// the next read call"; they differ in how soon a stale view is destroyed.
type Discipline int

const (
	// Compact: one fixed backing array like bufio.Reader; on every fill the
	// unread bytes are moved to the front and the freed region is overwritten
	// by the arriving bytes (or poison).
	Compact Discipline = iota
	// ReallocPoison: every read call (Peek, Read, fill) moves the unread bytes
	// to a fresh backing array and fills the old one with 0xA5, so any view
	// that is retained across a read call fails deterministically.
	ReallocPoison
	// Ring: a ring buffer; a Peek that straddles the wrap point is served from a
	// scratch area that the next call reuses.
	Ring
)

var ErrInjected = errors.New("simnet: injected read error")
var ErrShort = errors.New("simnet: fewer bytes buffered than requested")

// ErrDeadline is a read error of the "timeout" class (what a connection with a read deadline returns): it wraps
// os.ErrDeadlineExceeded and reports Timeout() == true.
var ErrDeadline error = deadlineError{}

type deadlineError struct{}

func (deadlineError) Error() string   { return "simnet: read deadline exceeded" }
func (deadlineError) Timeout() bool   { return true }
func (deadlineError) Temporary() bool { return true }
func (deadlineError) Unwrap() error   { return os.ErrDeadlineExceeded }

var ErrSegment = errors.New("simnet: the requested octets are not contiguous yet (short peek)")

// Source supplies arriving bytes to a blocked Read: the simulated network
// decides, at the moment the reader blocks, what arrives next.
type Source interface {
	// Next returns the next arrival chunk, or an error (io.EOF, ErrInjected)
	// when the stream ends or fails. It is only called when the buffer is empty
	// and a Read must block.
	Next() ([]byte, error)
}

type SimConn struct {
	OnOverPeek func(n, buffered int) // see SetOnOverPeek
	disc       Discipline
	buf        []byte // backing array
	r, w       int    // unread region is buf[r:w]
	scratch    []byte
	src        Source
	pendErr    error // sticky error reported once the buffer is drained
	// ShortRead, if set, is asked how many of the avail bytes a Read returns.
	ShortRead func(avail, want int) int
	// DataErr makes a Read that drains the buffer report the pending error together with the data
	// (io.Reader allows n > 0 with a non-nil error; iotest.DataErrReader behaves so).
	DataErr   bool
	OnDataErr func()
	// SegPeek, if set, is asked how many of the n requested (and buffered) octets a Peek can hand out contiguously:
	// a receive buffer made of segments (or a ring) returns the contiguous part and an error, then rearranges itself,
	// so the next Peek is complete. The interface allows that: "If Peek returns fewer than n bytes, it also returns
	// an error". PeekShort records that it happened (the harness resets it).
	SegPeek   func(avail, n int) int
	PeekShort bool
	coalesced bool
	// PeekErrWithData: once the stream has ended (an error is pending), a Peek that CAN hand out all n octets still
	// reports that error along with them. The interface only says a short Peek comes with an error; it does not say
	// a complete one comes without.
	PeekErrWithData bool
	OnPeekErr       func()
	// ZeroRead, if set, is asked before a Read hands data over whether this call returns (0, nil) instead
	// (io.Reader discourages but allows it; callers must treat it as "nothing happened").
	ZeroRead func() bool
	// counters
	Peeks, Reads, Discards, Fills int
	views                         [][]byte // views handed out since the last read call (ReallocPoison)
}

func NewSimConn(d Discipline, capacity int, src Source) *SimConn {
	if capacity < 16 {
		capacity = 16
	}
	return &SimConn{disc: d, buf: make([]byte, capacity), src: src}
}

const poison = 0xA5

func (c *SimConn) invalidate() {
	if c.disc != ReallocPoison {
		return
	}
	nb := make([]byte, len(c.buf))
	n := copy(nb, c.buf[c.r:c.w])
	for i := range c.buf {
		c.buf[i] = poison
	}
	c.buf, c.r, c.w = nb, 0, n
}

// Arrive appends bytes that came from the network (a "fill").
func (c *SimConn) Arrive(p []byte) {
	c.Fills++
	c.coalesced = false
	switch c.disc {
	case ReallocPoison:
		need := (c.w - c.r) + len(p)
		nb := make([]byte, max(need, len(c.buf)))
		n := copy(nb, c.buf[c.r:c.w])
		for i := range c.buf {
			c.buf[i] = poison
		}
		copy(nb[n:], p)
		c.buf, c.r, c.w = nb, 0, n+len(p)
	default: // Compact and Ring both compact here; Ring differs in Peek
		unread := c.w - c.r
		if unread+len(p) > len(c.buf) {
			nb := make([]byte, (unread+len(p))*2)
			copy(nb, c.buf[c.r:c.w])
			// the old array is abandoned: scribble it, as a reused network buffer would be
			for i := range c.buf {
				c.buf[i] = poison
			}
			c.buf = nb
		} else if c.r > 0 {
			copy(c.buf, c.buf[c.r:c.w])
			// freed tail region is overwritten below or poisoned
			for i := unread; i < c.w; i++ {
				c.buf[i] = poison
			}
		}
		c.r, c.w = 0, unread
		copy(c.buf[c.w:], p)
		c.w += len(p)
	}
}

// Fail makes the connection report err (io.EOF or ErrInjected) once the
// buffered bytes are consumed.
func (c *SimConn) Fail(err error) { c.pendErr = err }

func (c *SimConn) Size() int { return c.w - c.r }

// Release is what event-loop network libraries offer on their readers ("the slices handed out so far may be
// recycled"): everything in front of the cursor is given back and overwritten. Nothing in the harness calls it; a
// codec that does so on behalf of its caller destroys the frame it is about to return.
func (c *SimConn) Release() error {
	for i := 0; i < c.r && i < len(c.buf); i++ {
		c.buf[i] = poison
	}
	for _, v := range c.views {
		for i := range v {
			v[i] = poison
		}
	}
	for i := range c.scratch[:cap(c.scratch)] {
		c.scratch[:cap(c.scratch)][i] = poison
	}
	return nil
}

// Unread is for the harness only: the buffered octets, without any of the effects a Peek has.
func (c *SimConn) Unread() []byte { return c.buf[c.r:c.w] }

// OnOverPeek, when set, is told about every Peek that asks for more than is buffered. On a reader that fetches what is
// missing from the connection (bufio.Reader, netpoll) such a Peek waits for the peer.
func (c *SimConn) SetOnOverPeek(f func(n, buffered int)) { c.OnOverPeek = f }

func (c *SimConn) Peek(n int) ([]byte, error) {
	c.Peeks++
	c.invalidate()
	if n < 0 {
		return nil, errors.New("simnet: negative count")
	}
	avail := c.w - c.r
	var err error
	if n > avail {
		if c.OnOverPeek != nil {
			c.OnOverPeek(n, avail)
		}
		n = avail
		err = ErrShort
		if c.pendErr != nil {
			err = c.pendErr
		}
	}
	if c.SegPeek != nil && err == nil && n > 1 && !c.coalesced {
		if k := c.SegPeek(avail, n); k >= 1 && k < n {
			c.coalesced = true
			c.PeekShort = true
			return c.buf[c.r : c.r+k : c.r+k], ErrSegment
		}
	}
	if c.PeekErrWithData && err == nil && c.pendErr != nil && n > 0 {
		err = c.pendErr
		if c.OnPeekErr != nil {
			c.OnPeekErr()
		}
	}
	if c.disc == Ring && n > 1 {
		// serve from a scratch area that the next call reuses
		if cap(c.scratch) < n {
			c.scratch = make([]byte, n)
		}
		for i := range c.scratch[:cap(c.scratch)] {
			c.scratch[:cap(c.scratch)][i] = poison
		}
		s := c.scratch[:n]
		copy(s, c.buf[c.r:c.r+n])
		return s, err
	}
	// as bufio.Reader.Peek does, the view is a plain two-index slice: its capacity runs on over the octets that follow
	// in the buffer (the next frames). A decoder that appends to its input writes over them.
	return c.buf[c.r : c.r+n], err
}

func (c *SimConn) Discard(n int) (int, error) {
	c.Discards++
	if n < 0 {
		return 0, errors.New("simnet: negative count")
	}
	avail := c.w - c.r
	if n <= avail {
		c.r += n
		if n > 0 {
			c.coalesced = false
		}
		return n, nil
	}
	c.r = c.w
	if c.pendErr != nil {
		return avail, c.pendErr
	}
	return avail, ErrShort
}

// Read blocks (asks the Source) while nothing is buffered.
func (c *SimConn) Read(p []byte) (int, error) {
	c.Reads++
	c.invalidate()
	if len(p) == 0 {
		return 0, nil
	}
	for c.w-c.r == 0 {
		if c.pendErr != nil {
			return 0, c.pendErr
		}
		if c.src == nil {
			return 0, io.EOF
		}
		chunk, err := c.src.Next()
		if len(chunk) > 0 {
			c.Arrive(chunk)
		}
		if err != nil {
			c.pendErr = err
		}
		if len(chunk) == 0 && err == nil {
			// a source that returns nothing and no error would spin; treat as EOF
			c.pendErr = io.EOF
		}
	}
	if c.ZeroRead != nil && c.ZeroRead() {
		return 0, nil
	}
	avail := c.w - c.r
	n := min(avail, len(p))
	if c.ShortRead != nil && n > 1 {
		k := c.ShortRead(avail, len(p))
		if k >= 1 && k < n {
			n = k
		}
	}
	copy(p, c.buf[c.r:c.r+n])
	c.r += n
	if c.DataErr && c.w-c.r == 0 && c.pendErr != nil {
		if c.OnDataErr != nil {
			c.OnDataErr()
		}
		return n, c.pendErr
	}
	return n, nil
}
